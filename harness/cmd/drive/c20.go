package main

import (
	"context"
	"database/sql"
	"database/sql/driver"
	"encoding/json"
	"fmt"
	"io"
	"strings"
	"sync"
	"time"

	esql "github.com/bmeg/grip/existing-sql"
	"github.com/bmeg/grip/gdbi"
	"github.com/bmeg/grip/psql"
	"github.com/jmoiron/sqlx"
	"github.com/lib/pq"

	"gripverif/internal/coq"
)

func init() {
	props["C20"] = runC20
	sql.Register("gripverifrec", recDriver{})
}

// ---------- recording database/sql driver ----------
type recStmt struct {
	Kind string   `json:"kind"` // exec query prepare
	Text string   `json:"text"`
	Args []string `json:"args,omitempty"`
}
type recorder struct {
	mu    sync.Mutex
	stmts []recStmt
	label string // canned answer for SELECT DISTINCT label
}

var recorders sync.Map

type recDriver struct{}

func (recDriver) Open(dsn string) (driver.Conn, error) {
	r, _ := recorders.Load(dsn)
	return &recConn{r.(*recorder)}, nil
}

type recConn struct{ r *recorder }

func (c *recConn) log(kind, q string, args []driver.NamedValue) {
	a := []string{}
	for _, x := range args {
		a = append(a, fmt.Sprint(x.Value))
	}
	c.r.mu.Lock()
	c.r.stmts = append(c.r.stmts, recStmt{kind, q, a})
	c.r.mu.Unlock()
}
func (c *recConn) Prepare(q string) (driver.Stmt, error) {
	c.log("prepare", q, nil)
	return &recPrepared{c, q}, nil
}
func (c *recConn) Close() error              { return nil }
func (c *recConn) Begin() (driver.Tx, error) { return recTx{}, nil }
func (c *recConn) ExecContext(ctx context.Context, q string, args []driver.NamedValue) (driver.Result, error) {
	c.log("exec", q, args)
	return driver.RowsAffected(0), nil
}
func (c *recConn) QueryContext(ctx context.Context, q string, args []driver.NamedValue) (driver.Rows, error) {
	c.log("query", q, args)
	return c.answer(q), nil
}
func (c *recConn) answer(q string) driver.Rows {
	lq := strings.ToLower(q)
	switch {
	case strings.HasPrefix(lq, "select distinct label") && c.r.label != "":
		return &recRows{cols: []string{"label"}, rows: [][]driver.Value{{c.r.label}}}
	case strings.HasPrefix(lq, "select * from graphs where"):
		return &recRows{cols: []string{"graph_name", "sanitized_graph_name", "vertex_table", "edge_table"},
			rows: [][]driver.Value{{"g", "g", "g_vertices", "g_edges"}}}
	}
	return &recRows{cols: []string{}}
}

type recTx struct{}

func (recTx) Commit() error   { return nil }
func (recTx) Rollback() error { return nil }

type recPrepared struct {
	c *recConn
	q string
}

func (s *recPrepared) Close() error  { return nil }
func (s *recPrepared) NumInput() int { return -1 }
func nv(args []driver.Value) []driver.NamedValue {
	out := make([]driver.NamedValue, len(args))
	for i, a := range args {
		out[i] = driver.NamedValue{Ordinal: i + 1, Value: a}
	}
	return out
}
func (s *recPrepared) Exec(args []driver.Value) (driver.Result, error) {
	s.c.log("exec-prepared", s.q, nv(args))
	return driver.RowsAffected(0), nil
}
func (s *recPrepared) Query(args []driver.Value) (driver.Rows, error) {
	s.c.log("query-prepared", s.q, nv(args))
	return s.c.answer(s.q), nil
}

type recRows struct {
	cols []string
	rows [][]driver.Value
	pos  int
}

func (r *recRows) Columns() []string { return r.cols }
func (r *recRows) Close() error      { return nil }
func (r *recRows) Next(dest []driver.Value) error {
	if r.pos >= len(r.rows) {
		return io.EOF
	}
	copy(dest, r.rows[r.pos])
	r.pos++
	return nil
}

var recSeq int

func newRec(label string) (*sqlx.DB, *recorder) {
	recSeq++
	dsn := fmt.Sprintf("rec%d", recSeq)
	r := &recorder{label: label}
	recorders.Store(dsn, r)
	db, err := sql.Open("gripverifrec", dsn)
	if err != nil {
		panic(err)
	}
	db.SetMaxOpenConns(1)
	return sqlx.NewDb(db, "postgres"), r
}

// ---------- entry points ----------
type c20Entry struct {
	name   string
	benign string
	shape  func(v string) string // how the client value is embedded in the argument
	run    func(db *sqlx.DB, arg string)
}

func lookups(ids ...string) chan gdbi.ElementLookup {
	ch := make(chan gdbi.ElementLookup, len(ids)+1)
	for _, id := range ids {
		ch <- gdbi.ElementLookup{ID: id, Ref: &gdbi.BaseTraveler{}}
	}
	close(ch)
	return ch
}
func drain(ch chan gdbi.ElementLookup) {
	t := time.After(20 * time.Second)
	for {
		select {
		case _, ok := <-ch:
			if !ok {
				return
			}
		case <-t:
			return
		}
	}
}

func esqlSchema() []*esql.Schema {
	return []*esql.Schema{{Graph: "g",
		Vertices: []*esql.Vertex{{Table: "users", GidField: "id", Label: "User"}, {Table: "posts", GidField: "pid", Label: "Post"}},
		Edges: []*esql.Edge{
			{Table: "", Label: "wrote", From: &esql.ForeignKey{SourceField: "", DestTable: "users", DestField: "id"}, To: &esql.ForeignKey{SourceField: "", DestTable: "posts", DestField: "author"}},
			{Table: "likes", GidField: "lid", Label: "likes", From: &esql.ForeignKey{SourceField: "uid", DestTable: "users", DestField: "id"}, To: &esql.ForeignKey{SourceField: "pid", DestTable: "posts", DestField: "pid"}},
		}}}
}

func c20Entries() []c20Entry {
	id := func(v string) string { return v }
	ctx := context.Background()
	pg := func(db *sqlx.DB) *psql.Graph { return psql.VerifGraph(db, "g", "g_vertices", "g_edges") }
	es := func(db *sqlx.DB) gdbi.GraphInterface {
		g, err := esql.VerifGraphDB(db, esqlSchema()).Graph("g")
		if err != nil {
			panic(err)
		}
		return g
	}
	ents := []c20Entry{
		{"psql.GetVertex", "abc", id, func(db *sqlx.DB, a string) { pg(db).GetVertex(a, true); pg(db).GetVertex(a, false) }},
		{"psql.GetEdge", "abc", id, func(db *sqlx.DB, a string) { pg(db).GetEdge(a, true); pg(db).GetEdge(a, false) }},
		{"psql.DelVertex", "abc", id, func(db *sqlx.DB, a string) { pg(db).DelVertex(a) }},
		{"psql.DelEdge", "abc", id, func(db *sqlx.DB, a string) { pg(db).DelEdge(a) }},
		{"psql.VertexLabelScan", "abc", id, func(db *sqlx.DB, a string) {
			for range pg(db).VertexLabelScan(ctx, a) {
			}
		}},
		{"psql.GetVertexChannel", "abc", id, func(db *sqlx.DB, a string) {
			drain(pg(db).GetVertexChannel(ctx, lookups(a), true))
			drain(pg(db).GetVertexChannel(ctx, lookups(a), false))
		}},
		{"psql.GetOutChannel.id", "abc", id, func(db *sqlx.DB, a string) {
			drain(pg(db).GetOutChannel(ctx, lookups(a), true, false, []string{"l1"}))
			drain(pg(db).GetOutChannel(ctx, lookups(a), false, true, nil))
		}},
		{"psql.GetOutChannel.label", "abc", id, func(db *sqlx.DB, a string) {
			drain(pg(db).GetOutChannel(ctx, lookups("k1"), true, false, []string{"l1", a}))
		}},
		{"psql.GetInChannel.id", "abc", id, func(db *sqlx.DB, a string) {
			drain(pg(db).GetInChannel(ctx, lookups(a), true, false, []string{"l1"}))
			drain(pg(db).GetInChannel(ctx, lookups(a), false, true, nil))
		}},
		{"psql.GetInChannel.label", "abc", id, func(db *sqlx.DB, a string) {
			drain(pg(db).GetInChannel(ctx, lookups("k1"), true, false, []string{a, "l1"}))
		}},
		{"psql.GetOutEdgeChannel.id", "abc", id, func(db *sqlx.DB, a string) {
			drain(pg(db).GetOutEdgeChannel(ctx, lookups(a), true, false, []string{"l1"}))
			drain(pg(db).GetOutEdgeChannel(ctx, lookups(a), false, true, nil))
		}},
		{"psql.GetOutEdgeChannel.label", "abc", id, func(db *sqlx.DB, a string) {
			drain(pg(db).GetOutEdgeChannel(ctx, lookups("k1"), true, false, []string{a}))
		}},
		{"psql.GetInEdgeChannel.id", "abc", id, func(db *sqlx.DB, a string) {
			drain(pg(db).GetInEdgeChannel(ctx, lookups(a), true, false, []string{"l1"}))
			drain(pg(db).GetInEdgeChannel(ctx, lookups(a), false, true, nil))
		}},
		{"psql.GetInEdgeChannel.label", "abc", id, func(db *sqlx.DB, a string) {
			drain(pg(db).GetInEdgeChannel(ctx, lookups("k1"), true, false, []string{a}))
		}},
		{"psql.AddVertex", "abc", id, func(db *sqlx.DB, a string) {
			pg(db).AddVertex([]*gdbi.Vertex{{ID: a, Label: a, Data: map[string]interface{}{a: a}, Loaded: true}})
		}},
		{"psql.AddEdge", "abc", id, func(db *sqlx.DB, a string) {
			pg(db).AddEdge([]*gdbi.Edge{{ID: a, Label: a, From: a, To: a, Data: map[string]interface{}{a: a}, Loaded: true}})
		}},
		{"psql.AddGraph", "abc", id, func(db *sqlx.DB, a string) { psql.VerifGraphDB(db).AddGraph(a) }},
		{"psql.Graph", "abc", id, func(db *sqlx.DB, a string) { psql.VerifGraphDB(db).Graph(a) }},
		{"psql.DeleteGraph", "abc", id, func(db *sqlx.DB, a string) { psql.VerifGraphDB(db).DeleteGraph(a) }},
		{"psql.BuildSchema.graph", "abc", id, func(db *sqlx.DB, a string) { psql.VerifGraphDB(db).BuildSchema(ctx, a, 5, false) }},
		// the label comes back from the store (canned answer of the recorder = the value)
		{"psql.BuildSchema.storedlabel", "abc", id, func(db *sqlx.DB, a string) { psql.VerifGraphDB(db).BuildSchema(ctx, "g", 5, false) }},
		// existing-sql: ids are "<table>:<key>"
		{"esql.GetVertex.key", "17", func(v string) string { return "users:" + v }, func(db *sqlx.DB, a string) { es(db).GetVertex(a, true) }},
		{"esql.GetVertex.table", "users", func(v string) string { return v + ":17" }, func(db *sqlx.DB, a string) { es(db).GetVertex(a, true) }},
		{"esql.GetEdge.key", "17", func(v string) string { return "likes:" + v }, func(db *sqlx.DB, a string) { es(db).GetEdge(a, true) }},
		{"esql.GetVertexChannel.key", "17", func(v string) string { return "users:" + v }, func(db *sqlx.DB, a string) {
			drain(es(db).GetVertexChannel(ctx, lookups(a), true))
		}},
		{"esql.GetVertexChannel.table", "users", func(v string) string { return v + ":17" }, func(db *sqlx.DB, a string) {
			drain(es(db).GetVertexChannel(ctx, lookups(a), true))
		}},
		{"esql.GetOutChannel.key", "17", func(v string) string { return "users:" + v }, func(db *sqlx.DB, a string) {
			drain(es(db).GetOutChannel(ctx, lookups(a), true, false, nil))
		}},
		{"esql.GetInChannel.key", "17", func(v string) string { return "posts:" + v }, func(db *sqlx.DB, a string) {
			drain(es(db).GetInChannel(ctx, lookups(a), true, false, nil))
		}},
		{"esql.GetOutEdgeChannel.key", "17", func(v string) string { return "users:" + v }, func(db *sqlx.DB, a string) {
			drain(es(db).GetOutEdgeChannel(ctx, lookups(a), true, false, nil))
		}},
		{"esql.GetInEdgeChannel.key", "17", func(v string) string { return "posts:" + v }, func(db *sqlx.DB, a string) {
			drain(es(db).GetInEdgeChannel(ctx, lookups(a), true, false, nil))
		}},
		{"esql.VertexLabelScan", "User", id, func(db *sqlx.DB, a string) {
			for range es(db).VertexLabelScan(ctx, a) {
			}
		}},
		{"esql.GetOutChannel.label", "wrote", func(v string) string { return v }, func(db *sqlx.DB, a string) {
			drain(es(db).GetOutChannel(ctx, lookups("users:1"), true, false, []string{a}))
		}},
	}
	return ents
}

func c20Hostile(ctx *Ctx) []string {
	base := []string{
		"x' OR '1'='1", "x'; DROP TABLE g_vertices; --", "'", "''", "\\", "\\'", "a\\' OR 1=1 --", "x' --", "x'/*", "*/ x",
		"1 OR 1=1", "1; DROP TABLE users", "1) OR (1=1", "0 UNION SELECT * FROM graphs", "users; DROP TABLE posts; --", "users WHERE 1=1 --",
		"\"", "x\" OR \"\"=\"", "E'x", " E'\\''", "é'ü", "a b", "abc", "17", "a-b_c", "%s", "%d'", "$1", "?", "", "'||'", "\n'", "x'\n--",
	}
	n := ctx.Pick(25, 400)
	alphabet := []string{"'", "\\", "\"", ";", "-", "/", "*", " ", "a", "1", "(", ")", "=", "E", "O", "R", "\n", "é", "%", ","}
	for i := 0; i < n; i++ {
		l := 1 + ctx.Rng.Intn(8)
		s := ""
		for j := 0; j < l; j++ {
			s += alphabet[ctx.Rng.Intn(len(alphabet))]
		}
		base = append(base, s)
	}
	return base
}

type c20Input struct {
	Kind  string `json:"kind"` // quote | stmt
	Entry string `json:"entry,omitempty"`
	Value string `json:"value"`
}
type c20Obs struct {
	Quoted  string    `json:"quoted,omitempty"`
	Benign  []recStmt `json:"benign,omitempty"`
	Hostile []recStmt `json:"hostile,omitempty"`
}

func texts(st []recStmt) []string {
	out := []string{}
	for _, s := range st {
		if s.Kind == "exec-prepared" || s.Kind == "query-prepared" {
			continue // text already recorded at prepare time; bound values are data
		}
		out = append(out, s.Text)
	}
	return out
}

func runC20(ctx *Ctx) error {
	ctx.EvalMod = "Eval_C20"
	ctx.CaseTy = "c20_case"
	ctx.Shard = 150
	ctx.HasKF = true
	ctx.Rule = "every request-reachable entry point of psql.Graph / psql.GraphDB / esql.Graph (33 entry x argument-position combinations) run against a recording database/sql driver, once with a benign value and once with each hostile value (31 hand-written injection shapes: quote breakouts, comment markers, backslash escapes, E-strings, unions, statement separators, format verbs, placeholders, newlines, non-ASCII; plus random strings over a 20-symbol alphabet of SQL metacharacters); observed: the text of every statement reaching the driver (bound parameters are recorded separately and are data by construction); plus lib/pq QuoteLiteral on every hostile value against the model pq_quote; non-trivial = the hostile value contains a quote, backslash, comment marker, separator or space; distinct by input"
	hostile := c20Hostile(ctx)
	ents := c20Entries()
	var inputs []c20Input
	if ctx.Replay != nil {
		var in c20Input
		if err := json.Unmarshal(ctx.Replay, &in); err != nil {
			return err
		}
		inputs = []c20Input{in}
	} else {
		for _, h := range hostile {
			inputs = append(inputs, c20Input{Kind: "quote", Value: h})
		}
		for _, e := range ents {
			for _, h := range hostile {
				if h == "" && e.name == "psql.BuildSchema.storedlabel" {
					continue // BuildSchema skips the empty label: nothing is looked up
				}
				inputs = append(inputs, c20Input{Kind: "stmt", Entry: e.name, Value: h})
			}
		}
	}
	byName := map[string]c20Entry{}
	for _, e := range ents {
		byName[e.name] = e
	}
	benignCache := map[string][]recStmt{}
	for _, in := range inputs {
		nontriv := strings.ContainsAny(in.Value, "'\\;-/* \"")
		key, _ := json.Marshal(in)
		if in.Kind == "quote" {
			q := pq.QuoteLiteral(in.Value)
			ctx.Add(Case{Input: in, Observed: c20Obs{Quoted: q}, Coq: fmt.Sprintf("(CQuote %s %s)", coq.Str(in.Value), coq.Str(q)),
				Nontrivial: nontriv, Key: string(key), Tags: []string{"kind=quote"}})
			continue
		}
		e, ok := byName[in.Entry]
		if !ok {
			return fmt.Errorf("unknown entry %s", in.Entry)
		}
		runWith := func(v string) []recStmt {
			label := ""
			if e.name == "psql.BuildSchema.storedlabel" {
				label = v
			}
			db, r := newRec(label)
			func() {
				defer func() { recover() }()
				e.run(db, e.shape(v))
			}()
			db.Close()
			r.mu.Lock()
			defer r.mu.Unlock()
			return append([]recStmt(nil), r.stmts...)
		}
		b, ok := benignCache[e.name]
		if !ok {
			b = runWith(e.benign)
			benignCache[e.name] = b
		}
		h := runWith(in.Value)
		ctx.Add(Case{Input: in, Observed: c20Obs{Benign: b, Hostile: h},
			Coq:        fmt.Sprintf("(CStmt %s %s %s %s)", coq.Str(e.name), coq.Str(in.Value), coq.StrList(texts(b)), coq.StrList(texts(h))),
			Nontrivial: nontriv && len(h) > 0, Key: string(key),
			Tags: []string{"kind=stmt", "entry=" + e.name, fmt.Sprintf("stmts=%d", len(texts(h)))}})
	}
	return nil
}
