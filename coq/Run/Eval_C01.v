(* Correspondence evaluator for C01 (also used by C02, C15): graph, program, observed outcome. *)
From Coq Require Import List ZArith QArith String Bool NArith.
Import ListNotations.
From Grip Require Export Model.Json Model.Has Model.Traversal.
Local Close Scope Q_scope.

Record c01_case := { cgraph : graph; cprog : list stmt; cobs : outcome }.

Fixpoint remove_one (x : jv) (l : list jv) : option (list jv) :=
  match l with
  | [] => None
  | y :: r => if jeq x y then Some r else option_map (cons y) (remove_one x r)
  end.
Fixpoint sub_multiset (a b : list jv) : bool :=          (* a is contained in b, with multiplicity *)
  match a with
  | [] => true
  | x :: r => match remove_one x b with Some b' => sub_multiset r b' | None => false end
  end.
Definition multiset_eqb (a b : list jv) : bool := (List.length a =? List.length b) && sub_multiset a b.

Definition window_like (s : stmt) : bool :=
  match s with SLimit _ | SSkip _ | SRange _ _ | SDistinct _ => true | _ => false end.

(* which comparison the property licenses for this program *)
Inductive cmp_mode := Exact | Window (prefix : list stmt) | Unordered.
Definition mode_of (p : list stmt) : cmp_mode :=
  match rev p with
  | s :: r => if window_like s then (if existsb window_like r then Unordered else Window (rev r))
              else if existsb window_like r then
                     (match s, r with SCount, w :: r' => if window_like w && negb (existsb window_like r') then Exact else Unordered
                                     | _, _ => Unordered end)
                   else Exact
  | [] => Exact
  end.

Definition agrees (c : c01_case) : bool :=
  match run (cgraph c) (cprog c), cobs c with
  | Rejected, Rejected => true
  | Rows m, Rows o =>
      match mode_of (cprog c) with
      | Exact => multiset_eqb m o
      | Window pre =>
          (* row count by the arithmetic of the bounds; rows a sub-multiset of the untruncated result *)
          (List.length m =? List.length o) &&
          match type_of (cprog c) with
          | Some ty => sub_multiset o (map (row_of ty) (run_steps (cgraph c) pre [t0]))
          | None => false
          end
      | Unordered => List.length m =? List.length o    (* windows in the middle: only sizes are order independent... *)
      end
  | _, _ => false
  end.

Fixpoint idx_where {X} (p : X -> bool) (i : nat) (l : list X) : list nat :=
  match l with [] => [] | x :: r => if p x then i :: idx_where p (S i) r else idx_where p (S i) r end.
Definition mismatches (cs : list c01_case) := idx_where (fun c => negb (agrees c)) 0 cs.
(* the step semantics of Model/Traversal.v is the documented meaning: the model is the specification *)
Definition spec_violations (cs : list c01_case) := idx_where (fun c => negb (agrees c)) 0 cs.
Definition explain (c : c01_case) := (run (cgraph c) (cprog c), mode_of (cprog c)).
