(* Correspondence evaluator for C07: real pipelines (production compiler + pipeline.Run) on graphs whose
   fan-out per step is uniform, against the row count of Model/Pipeline.v's functional meaning and the
   termination / release facts its theorems give for every schedule. *)
From Coq Require Import List NArith Bool.
Import ListNotations.
From Grip Require Export Model.Pipeline.
Local Open Scope N_scope.

Inductive sk := Fan (k : N) | Limit (k : N) | Count | Exactly (m : N).
Record c07_case := {
  c_scan : N; c_stages : list sk; c_cancel : option N;
  o_closed : bool; o_rows : N; o_leak : N; o_tmp : N;
  o_nexts : N;                 (* cursor advances on the store during the run *)
  c_next_bound : option N }.   (* what a run that stops when its limit is satisfied may advance at most *)

(* rows delivered: pipe_fun with every row of a Fan step yielding k rows (lemma C07_expect_is_pipe_fun) *)
Definition expect1 (n : N) (s : sk) : N :=
  match s with Fan k => n * k | Limit k => N.min n k | Count => 1 | Exactly m => m end.
Definition expect (c : c07_case) : N := fold_left expect1 (c_stages c) (c_scan c).

Definition agrees (c : c07_case) : bool :=
  o_closed c &&
  match c_cancel c with
  | None => o_rows c =? expect c
  | Some _ => o_rows c <=? expect c
  end.
(* the property on the observation: the stream closes; afterwards no goroutine and no temporary entry is left; a
   satisfied limit stops the scan behind it (it does not read the rest of the graph) *)
Definition spec_ok (c : c07_case) : bool :=
  o_closed c && (o_leak c =? 0) && (o_tmp c =? 0) &&
  match c_next_bound c with Some b => o_nexts c <=? b | None => true end.

Fixpoint idx_filter {A} (f : A -> bool) (l : list A) (i : nat) : list nat :=
  match l with [] => [] | x :: r => if f x then i :: idx_filter f r (S i) else idx_filter f r (S i) end.
Definition mismatches (cs : list c07_case) : list nat := idx_filter (fun c => negb (agrees c)) cs 0%nat.
Definition spec_violations (cs : list c07_case) : list nat := idx_filter (fun c => negb (spec_ok c)) cs 0%nat.
Definition explain (c : c07_case) := (expect c, agrees c, spec_ok c).
