(* Correspondence evaluator for C11: histories against the server's Job service vs Model/Jobs.v over the
   traversal semantics of Model/Traversal.v (reusing C01's row comparison). *)
From Coq Require Import List NArith ZArith Arith Bool String.
Import ListNotations.
From Grip Require Export Run.Eval_C01 Model.Jobs.

Inductive jop :=
| OSubmit (prog : list stmt) (complete : bool) (count : N) (view direct : outcome)
| OResume (job : nat) (ext : list stmt) (rows : outcome)
| OView (job : nat) (found : bool) (count : N) (rows : outcome)
| OSearch (prog : list stmt) (found : list nat)
| OList (found : list nat)
| ODelete (job : nat)
| ORestart
| OSpool (workers : nat) (sent got : list nat).   (* MarshalStream |> UnmarshalStream with that many workers: item ids in, ids out *)
Record c11_case := { jgraph : graph; jhistory : list jop; jfailed : bool }.

Definition rows_ok (g : graph) (p : list stmt) (o : outcome) : bool := agrees {| cgraph := g; cprog := p; cobs := o |}.
(* a job whose traversal contains a window or distinct stores whichever rows the store's order made it keep; what a
   continuation yields from those rows is then only comparable in acceptance, not in content *)
Definition resume_ok (g : graph) (p ext : list stmt) (o : outcome) : bool :=
  if existsb window_like p
  then match run g (p ++ ext), o with Rejected, Rejected => true | Rows _, Rows _ => true | _, _ => false end
  else rows_ok g (p ++ ext) o.
Definition nrows (o : outcome) : N := match o with Rows r => N.of_nat (List.length r) | Rejected => 0%N end.

(* statement equality through the printed term is not available: compare by the model's typing-relevant
   structure and literal arguments *)
Fixpoint strs_eqb (a b : list string) : bool :=
  match a, b with [], [] => true | x :: r, y :: r' => String.eqb x y && strs_eqb r r' | _, _ => false end.
Definition jv_eqb := jeq.
Fixpoint hexpr_eqb (a b : hexpr) : bool :=
  match a, b with
  | HCond k o v, HCond k' o' v' => String.eqb k k' && (match o, o' with
      | CEq, CEq | CNeq, CNeq | CGt, CGt | CGte, CGte | CLt, CLt | CLte, CLte | CInside, CInside | COutside, COutside
      | CBetween, CBetween | CWithin, CWithin | CWithout, CWithout | CContains, CContains => true | _, _ => false end) && jeq v v'
  | HAnd l, HAnd l' | HOr l, HOr l' =>
      (fix go (x y : list hexpr) : bool := match x, y with [], [] => true | p :: x', q :: y' => hexpr_eqb p q && go x' y' | _, _ => false end) l l'
  | HNot x, HNot y => hexpr_eqb x y
  | HUnset, HUnset => true
  | _, _ => false
  end.
Definition stmt_eqb (a b : stmt) : bool :=
  match a, b with
  | SV x, SV y | SE x, SE y | SIn x, SIn y | SOut x, SOut y | SBoth x, SBoth y | SInE x, SInE y | SOutE x, SOutE y
  | SBothE x, SBothE y | SInNull x, SInNull y | SOutNull x, SOutNull y | SInENull x, SInENull y | SOutENull x, SOutENull y
  | SHasLabel x, SHasLabel y | SHasId x, SHasId y | SHasKey x, SHasKey y | SSelect x, SSelect y
  | SFields x, SFields y | SDistinct x, SDistinct y => strs_eqb x y
  | SHas x, SHas y => hexpr_eqb x y
  | SAs x, SAs y | SUnwind x, SUnwind y => String.eqb x y
  | SRender x, SRender y => jeq x y
  | SPath, SPath | SCount, SCount => true
  | SLimit x, SLimit y | SSkip x, SSkip y => N.eqb x y
  | SRange a1 b1, SRange a2 b2 => Z.eqb a1 a2 && Z.eqb b1 b2
  | _, _ => false
  end.

(* walk the history with the model's job table (ids = index of the submit operation) *)
Fixpoint check (g : graph) (ops : list jop) (i : nat) (t : jtable) : bool :=
  match ops with
  | [] => true
  | op :: r =>
      match op with
      | OSubmit p complete count view direct =>
          let accepted := match run g p with Rejected => false | Rows _ => true end in
          (if accepted
           then complete && rows_ok g p view && rows_ok g p direct && (count =? nrows view)%N
           else match view, direct with Rejected, Rejected => true | _, _ => false end)
          && check g r (S i) (if accepted then jstep t (ASubmit i p) else t)
      | OResume j ext rows =>
          match find (fun x => fst x =? j) t with
          | Some (_, p) => resume_ok g p ext rows
          | None => match rows with Rejected => true | _ => false end
          end && check g r (S i) t
      | OView j found count rows =>
          match find (fun x => fst x =? j) t with
          | Some (_, p) => found && rows_ok g p rows && (count =? nrows rows)%N
          | None => negb found && match rows with Rows [] => true | Rejected => true | _ => false end
          end && check g r (S i) t
      | OSearch p found =>
          let expect := map fst (filter (fun x => job_match stmt_eqb p (snd x)) t) in
          (if list_eq_dec Nat.eq_dec expect found then true else false) && check g r (S i) t
      | OList found => (if list_eq_dec Nat.eq_dec (map fst t) found then true else false) && check g r (S i) t
      | ODelete j => check g r (S i) (jstep t (ADelete j))
      | ORestart => check g r (S i) (jstep t ARestart)
      | OSpool n sent got =>
          (if list_eq_dec Nat.eq_dec (merge (List.length sent + 2) (deal n sent)) got then true else false) && check g r (S i) t
      end
  end.
Notation "a +:+ b" := (cons a b) (at level 41, right associativity, only parsing).
Fixpoint trace (g : graph) (ops : list jop) (i : nat) (t : jtable) : list bool :=
  match ops with
  | [] => []
  | op :: r =>
      match op with
      | OSubmit p complete count view direct =>
          let accepted := match run g p with Rejected => false | Rows _ => true end in
          (if accepted
           then complete && rows_ok g p view && rows_ok g p direct && (count =? nrows view)%N
           else match view, direct with Rejected, Rejected => true | _, _ => false end)
          +:+ trace g r (S i) (if accepted then jstep t (ASubmit i p) else t)
      | OResume j ext rows =>
          match find (fun x => fst x =? j) t with
          | Some (_, p) => resume_ok g p ext rows
          | None => match rows with Rejected => true | _ => false end
          end +:+ trace g r (S i) t
      | OView j found count rows =>
          match find (fun x => fst x =? j) t with
          | Some (_, p) => found && rows_ok g p rows && (count =? nrows rows)%N
          | None => negb found && match rows with Rows [] => true | Rejected => true | _ => false end
          end +:+ trace g r (S i) t
      | OSearch p found =>
          let expect := map fst (filter (fun x => job_match stmt_eqb p (snd x)) t) in
          (if list_eq_dec Nat.eq_dec expect found then true else false) +:+ trace g r (S i) t
      | OList found => (if list_eq_dec Nat.eq_dec (map fst t) found then true else false) +:+ trace g r (S i) t
      | ODelete j => true +:+ trace g r (S i) (jstep t (ADelete j))
      | ORestart => true +:+ trace g r (S i) (jstep t ARestart)
      | OSpool n sent got =>
          (if list_eq_dec Nat.eq_dec (merge (List.length sent + 2) (deal n sent)) got then true else false) +:+ trace g r (S i) t
      end
  end.
Definition agrees11 (c : c11_case) : bool := negb (jfailed c) && check (jgraph c) (jhistory c) 0 [].

Definition mismatches (cs : list c11_case) := idx_where (fun c => negb (agrees11 c)) 0 cs.
(* the model is the specification: rows of the traversal semantics, prefix search, submitted-minus-deleted *)
Definition spec_violations (cs : list c11_case) := idx_where (fun c => negb (agrees11 c)) 0 cs.
Definition explain (c : c11_case) := (jfailed c, trace (jgraph c) (jhistory c) 0 []).
