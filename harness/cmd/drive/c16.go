package main

import (
	"context"
	"encoding/json"
	"fmt"
	"math"
	"os"
	"reflect"
	"sort"

	"github.com/bmeg/grip/gdbi"
	"github.com/bmeg/grip/gripql"
	"github.com/bmeg/grip/kvgraph"
	"github.com/bmeg/grip/kvindex"
	"github.com/bmeg/grip/kvi"
	"google.golang.org/protobuf/types/known/structpb"

	"gripverif/internal/coq"
)

func init() { props["C16"] = runC16 }

type c16Input struct {
	Driver string      `json:"driver"`
	Kind   string      `json:"kind"` // graph vertex edge field value
	G      bstr        `json:"g"`
	ID     bstr        `json:"id"`
	Label  bstr        `json:"label"`
	From   bstr        `json:"from"`
	To     bstr        `json:"to"`
	Field  bstr        `json:"field,omitempty"` // keys: the index field name
	Value  interface{} `json:"value,omitempty"`
}
type c16Obs struct {
	Accepted bool   `json:"accepted"`
	Read     bool   `json:"read"`
	Others   bool   `json:"others"`
	Note     string `json:"note,omitempty"`
}

// snapshot of everything observable about all graphs except what `skip` names
func snapshotAll(db gdbi.GraphDB) map[string]interface{} {
	ctx := context.Background()
	out := map[string]interface{}{}
	gs := db.ListGraphs()
	sort.Strings(gs)
	out["graphs"] = gs
	for _, g := range gs {
		gi, err := db.Graph(g)
		if err != nil {
			continue
		}
		vs := []string{}
		ids := []string{}
		for v := range gi.GetVertexList(ctx, true) {
			b, _ := json.Marshal(v.Data)
			vs = append(vs, fmt.Sprintf("%q|%q|%s", v.ID, v.Label, b))
			ids = append(ids, v.ID)
		}
		sort.Strings(vs)
		out["V:"+g] = vs
		es := []string{}
		for e := range gi.GetEdgeList(ctx, true) {
			b, _ := json.Marshal(e.Data)
			es = append(es, fmt.Sprintf("%q|%q|%q|%q|%s", e.ID, e.Label, e.From, e.To, b))
		}
		sort.Strings(es)
		out["E:"+g] = es
		adj := []string{}
		for _, id := range ids {
			for r := range gi.GetOutChannel(ctx, lookup1(id), true, false, nil) {
				adj = append(adj, fmt.Sprintf("out %q->%q", id, r.Vertex.ID))
			}
			for r := range gi.GetInChannel(ctx, lookup1(id), true, false, nil) {
				adj = append(adj, fmt.Sprintf("in %q<-%q", id, r.Vertex.ID))
			}
			for r := range gi.GetOutEdgeChannel(ctx, lookup1(id), true, false, nil) {
				adj = append(adj, fmt.Sprintf("outE %q:%q", id, r.Edge.ID))
			}
			for r := range gi.GetInEdgeChannel(ctx, lookup1(id), true, false, nil) {
				adj = append(adj, fmt.Sprintf("inE %q:%q", id, r.Edge.ID))
			}
		}
		sort.Strings(adj)
		out["A:"+g] = adj
		// which indices the graph is said to have
		ix := []string{}
		for i := range gi.GetVertexIndexList() {
			ix = append(ix, fmt.Sprintf("%q.%q.%q", i.Graph, i.Label, i.Field))
		}
		sort.Strings(ix)
		out["I:"+g] = ix
		// what the label index says
		labels, _ := gi.ListVertexLabels()
		sort.Strings(labels)
		idx := []string{}
		for _, l := range labels {
			for id := range gi.VertexLabelScan(ctx, l) {
				idx = append(idx, fmt.Sprintf("label %q: %q", l, id))
			}
		}
		sort.Strings(idx)
		out["L:"+g] = idx
	}
	return out
}

// remove from snapshot `after` exactly the expected additions and compare with `before`
func sameExcept(before, after map[string]interface{}, rm func(key string, items []string) []string, newGraph string, isNew bool) bool {
	a2 := map[string]interface{}{}
	if !isNew {
		// element writes go to graph "g": its label index gains the written element by design; the label index
		// of every OTHER graph must stay as it was
		b2 := map[string]interface{}{}
		for k, v := range before {
			if k != "L:g" {
				b2[k] = v
			}
		}
		before = b2
	}
	for k, v := range after {
		if !isNew && k == "L:g" {
			continue
		}
		if isNew && (k == "V:"+newGraph || k == "E:"+newGraph || k == "A:"+newGraph || k == "L:"+newGraph || k == "I:"+newGraph) {
			if _, had := before[k]; !had {
				if l, ok := v.([]string); ok && len(l) == 0 {
					continue
				}
			}
		}
		if l, ok := v.([]string); ok {
			a2[k] = rm(k, l)
		} else {
			a2[k] = v
		}
	}
	return reflect.DeepEqual(before, a2)
}

// every key the store holds, in key order: a refused write must leave this as it was
func rawKeys(kv kvi.KVInterface) []string {
	out := []string{}
	kv.View(func(it kvi.KVIterator) error {
		for it.Seek([]byte{}); it.Valid(); it.Next() {
			out = append(out, string(it.Key()))
		}
		return nil
	})
	return out
}

func execC16(in c16Input) c16Obs {
	dir, _ := os.MkdirTemp("", "c16g")
	defer os.RemoveAll(dir)
	kv, err := kvi.NewKVInterface(in.Driver, dir+"/db", nil)
	if err != nil {
		return c16Obs{Note: err.Error()}
	}
	db := kvgraph.NewKVGraph(kv)
	defer db.Close()
	// base content: two graphs, ids that are prefixes of one another
	db.AddGraph("g")
	db.AddGraph("gg")
	for _, g := range []string{"g", "gg"} {
		gi, _ := db.Graph(g)
		for _, v := range []string{"a", "ab", "b"} {
			s, _ := structpb.NewStruct(map[string]interface{}{"n": v})
			gi.AddVertex([]*gdbi.Vertex{gdbi.NewElementFromVertex(&gripql.Vertex{Gid: v, Label: "L", Data: s})})
		}
		// a label that extends another label: label-index terms must be delimited
		gi.AddVertex([]*gdbi.Vertex{gdbi.NewElementFromVertex(&gripql.Vertex{Gid: "c", Label: "LL"})})
		gi.AddEdge([]*gdbi.Edge{gdbi.NewElementFromEdge(&gripql.Edge{Gid: "e", Label: "M", From: "a", To: "ab"})})
		gi.AddEdge([]*gdbi.Edge{gdbi.NewElementFromEdge(&gripql.Edge{Gid: "ea", Label: "M", From: "ab", To: "b"})})
	}
	before := snapshotAll(db)
	keysBefore := rawKeys(kv)
	ctx := context.Background()
	g := string(in.G)
	switch in.Kind {
	case "graph":
		// the driver validates the name itself (callers such as kvload and embedded users rely on that); a refused name
		// must leave no trace, index fields included
		err := db.AddGraph(g)
		after := snapshotAll(db)
		if err != nil {
			return c16Obs{Accepted: false, Others: reflect.DeepEqual(before, after) && reflect.DeepEqual(keysBefore, rawKeys(kv))}
		}
		// read back: listed exactly once, usable, isolated
		cnt := 0
		for _, x := range db.ListGraphs() {
			if x == g {
				cnt++
			}
		}
		read := cnt == 1
		already := g == "g" || g == "gg"
		gi, gerr := db.Graph(g)
		read = read && gerr == nil
		others := sameExcept(before, after, func(k string, l []string) []string {
			if k == "graphs" && !already {
				out := []string{}
				for _, x := range l {
					if x != g {
						out = append(out, x)
					}
				}
				return out
			}
			return l
		}, g, true)
		if gerr == nil && !already {
			// an index added to the new graph is listed there and by no other graph
			gi.AddVertexIndex("L", "n")
			withIdx := snapshotAll(db)
			for _, og := range []string{"g", "gg"} {
				if !reflect.DeepEqual(before["I:"+og], withIdx["I:"+og]) {
					others = false
				}
			}
			if l, ok := withIdx["I:"+g].([]string); !ok || len(l) != 1 {
				read = false
			}
			// a vertex written to the new graph appears there and nowhere else
			gi.AddVertex([]*gdbi.Vertex{gdbi.NewElementFromVertex(&gripql.Vertex{Gid: "zz", Label: "L"})})
			if v := gi.GetVertex("zz", true); v == nil {
				read = false
			}
			for _, og := range []string{"g", "gg"} {
				ogi, _ := db.Graph(og)
				if ogi.GetVertex("zz", true) != nil {
					others = false
				}
			}
			// deleting the new graph leaves every other graph as it was, including a graph whose name merely
			// starts with the deleted name, and that graph keeps indexing what is written to it
			sib := g + "2"
			if db.AddGraph(sib) == nil {
				sgi, _ := db.Graph(sib)
				sgi.AddVertex([]*gdbi.Vertex{gdbi.NewElementFromVertex(&gripql.Vertex{Gid: "s1", Label: "S"})})
				mid := snapshotAll(db)
				db.DeleteGraph(g)
				end := snapshotAll(db)
				for _, og := range []string{"g", "gg", sib} {
					for _, pre := range []string{"V:", "E:", "A:", "L:"} {
						if !reflect.DeepEqual(mid[pre+og], end[pre+og]) {
							others = false
						}
					}
				}
				sgi.AddVertex([]*gdbi.Vertex{gdbi.NewElementFromVertex(&gripql.Vertex{Gid: "s2", Label: "S"})})
				found := 0
				for range sgi.VertexLabelScan(ctx, "S") {
					found++
				}
				if found != 2 {
					others = false
				}
			}
		}
		return c16Obs{Accepted: true, Read: read, Others: others}
	case "bulkvertex":
		v := &gripql.Vertex{Gid: string(in.ID), Label: string(in.Label)}
		gi, _ := db.Graph("g")
		err := v.Validate()
		if err == nil {
			sa, _ := structpb.NewStruct(map[string]interface{}{"n": "changed"})
			ch := make(chan *gdbi.GraphElement, 3)
			ch <- &gdbi.GraphElement{Graph: "g", Vertex: gdbi.NewElementFromVertex(&gripql.Vertex{Gid: "bn", Label: "L"})}
			ch <- &gdbi.GraphElement{Graph: "g", Vertex: gdbi.NewElementFromVertex(v)}
			ch <- &gdbi.GraphElement{Graph: "g", Vertex: gdbi.NewElementFromVertex(&gripql.Vertex{Gid: "a", Label: "L", Data: sa})}
			close(ch)
			err = gi.BulkAdd(ch)
		}
		after := snapshotAll(db)
		if err != nil {
			return c16Obs{Accepted: false, Others: reflect.DeepEqual(before, after) && reflect.DeepEqual(keysBefore, rawKeys(kv)), Note: err.Error()}
		}
		read := true
		for _, id := range []string{"bn", string(in.ID), "a"} {
			if x := gi.GetVertex(id, true); x == nil {
				read = false
			}
		}
		if x := gi.GetVertex("a", true); string(in.ID) != "a" && (x == nil || x.Data["n"] != "changed") {
			read = false
		}
		found := false
		for x := range gi.VertexLabelScan(ctx, string(in.Label)) {
			if x == string(in.ID) {
				found = true
			}
		}
		// the other graph is untouched
		others := reflect.DeepEqual(before["V:gg"], after["V:gg"]) && reflect.DeepEqual(before["E:gg"], after["E:gg"]) && reflect.DeepEqual(before["L:gg"], after["L:gg"])
		return c16Obs{Accepted: true, Read: read && found, Others: others}
	case "vertex", "field", "value":
		data := map[string]interface{}{}
		if in.Kind == "field" {
			data[string(in.ID)] = "x"
		}
		if in.Kind == "value" {
			data["val"] = in.Value
		}
		id, label := string(in.ID), string(in.Label)
		if in.Kind != "vertex" {
			id, label = "nv", "L"
		}
		s, serr := structpb.NewStruct(data)
		if serr != nil {
			return c16Obs{Accepted: false, Others: true, Note: "not a wire-valid value: " + serr.Error()}
		}
		v := &gripql.Vertex{Gid: id, Label: label, Data: s}
		gi, _ := db.Graph("g")
		err := v.Validate()
		if err == nil {
			err = gi.AddVertex([]*gdbi.Vertex{gdbi.NewElementFromVertex(v)})
		}
		after := snapshotAll(db)
		if err != nil {
			return c16Obs{Accepted: false, Others: reflect.DeepEqual(before, after) && reflect.DeepEqual(keysBefore, rawKeys(kv)), Note: err.Error()}
		}
		got := gi.GetVertex(id, true)
		read := got != nil && got.ID == id && got.Label == label && reflect.DeepEqual(normJSON(got.Data), normJSON(data))
		cnt := 0
		for x := range gi.GetVertexList(ctx, true) {
			if x.ID == id {
				cnt++
				if x.Label != label || !reflect.DeepEqual(normJSON(x.Data), normJSON(data)) {
					read = false
				}
			}
		}
		replaced := id == "a" || id == "ab" || id == "b"
		read = read && cnt == 1
		// the label index finds it, and finds under every label exactly the vertices that carry that label
		for _, lb := range []string{label, "L", "LL"} {
			want := map[string]bool{}
			for x := range gi.GetVertexList(ctx, false) {
				if x.Label == lb {
					want[x.ID] = true
				}
			}
			got := map[string]bool{}
			for x := range gi.VertexLabelScan(ctx, lb) {
				got[x] = true
			}
			if !reflect.DeepEqual(want, got) {
				read = false
			}
		}
		read = read && func() bool {
			for x := range gi.VertexLabelScan(ctx, label) {
				if x == id {
					return true
				}
			}
			return false
		}()
		if got == nil {
			return c16Obs{Accepted: true, Read: false, Others: false, Note: "accepted but GetVertex finds nothing"}
		}
		b, _ := json.Marshal(got.Data)
		mine := fmt.Sprintf("%q|%q|%s", id, label, b)
		others := replaced || sameExcept(before, after, func(k string, l []string) []string {
			if k == "V:g" {
				out := []string{}
				for _, x := range l {
					if x != mine {
						out = append(out, x)
					}
				}
				return out
			}
			return l
		}, "", false)
		return c16Obs{Accepted: true, Read: read, Others: others}
	case "edge":
		e := &gripql.Edge{Gid: string(in.ID), Label: string(in.Label), From: string(in.From), To: string(in.To)}
		gi, _ := db.Graph("g")
		err := e.Validate()
		if err == nil {
			err = gi.AddEdge([]*gdbi.Edge{gdbi.NewElementFromEdge(e)})
		}
		after := snapshotAll(db)
		if err != nil {
			return c16Obs{Accepted: false, Others: reflect.DeepEqual(before, after), Note: err.Error()}
		}
		got := gi.GetEdge(e.Gid, true)
		read := got != nil && got.ID == e.Gid && got.Label == e.Label && got.From == e.From && got.To == e.To
		cnt := 0
		for x := range gi.GetEdgeList(ctx, true) {
			if x.ID == e.Gid {
				cnt++
				if x.Label != e.Label || x.From != e.From || x.To != e.To {
					read = false
				}
			}
		}
		replaced := e.Gid == "e" || e.Gid == "ea"
		read = read && (cnt == 1 || replaced)
		// traversal from its source finds it exactly once
		n := 0
		for r := range gi.GetOutEdgeChannel(ctx, lookup1(e.From), true, false, nil) {
			if r.Edge.ID == e.Gid && r.Edge.To == e.To {
				n++
			}
		}
		read = read && n == 1
		mine := fmt.Sprintf("%q|%q|%q|%q|", e.Gid, e.Label, e.From, e.To)
		others := replaced || sameExcept(before, after, func(k string, l []string) []string {
			out := []string{}
			for _, x := range l {
				switch {
				case k == "E:g" && len(x) >= len(mine) && x[:len(mine)] == mine:
				case k == "A:g" && (x == fmt.Sprintf("outE %q:%q", e.From, e.Gid) || x == fmt.Sprintf("inE %q:%q", e.To, e.Gid) ||
					x == fmt.Sprintf("out %q->%q", e.From, e.To) || x == fmt.Sprintf("in %q<-%q", e.To, e.From)):
				default:
					out = append(out, x)
				}
			}
			return out
		}, "", false)
		return c16Obs{Accepted: true, Read: read, Others: others}
	}
	return c16Obs{Note: "bad kind"}
}

func normJSON(x interface{}) interface{} {
	b, err := json.Marshal(x)
	if err != nil {
		return fmt.Sprintf("unmarshalable:%v", x)
	}
	var y interface{}
	json.Unmarshal(b, &y)
	if m, ok := y.(map[string]interface{}); ok && len(m) == 0 {
		return map[string]interface{}{}
	}
	return y
}

func runC16(ctx *Ctx) error {
	ctx.EvalMod = "Eval_C16"
	ctx.CaseTy = "c16_case"
	ctx.Rule = "the key constructors of kvgraph/keys.go and kvindex/keys.go (graph, vertex, edge, by-source, by-destination, index entry and term keys and every prefix used to address one element, one label or one graph) on 250 random component tuples over separator bytes, prefixes of one another, reserved words and unicode, byte for byte against Model/Keys.v; graph names / vertex ids+labels / edge ids+labels+endpoints / property names over an alphabet of separator and control bytes, punctuation, unicode and internally reserved words, to length 3 (exhaustive to length 2 in thorough), plus every ASCII byte on its own and behind a letter as a graph name, written into a store that already holds elements whose ids are prefixes of one another (vertex ids and labels also inside a three-element gi.BulkAdd between a new vertex and an overwrite: refused as a whole without a trace, raw keys compared, or stored as a whole); property values: nesting, empty containers, numeric extremes; non-trivial = accepted write; distinct by input"
	var inputs []c16Input
	if ctx.Replay != nil {
		var in c16Input
		if err := json.Unmarshal(ctx.Replay, &in); err != nil {
			return err
		}
		inputs = []c16Input{in}
	} else {
		alpha := []string{"a", "b", "\x00", "\x01", "|", ".", "$", "-", ":", " ", "_", "\xc3\xa9", "\xf0\x9d\x84\x9e", "/", "\x7f"}
		words := []string{"label", "data", "v", "e", "_gid", "__current__", "g", "gg", "ab", "a", "e", "ea", "", "L", "M", "a\x00b", "a\x00", "\x00a", "g\x00a", "v\x00g\x00a"}
		cands := append([]string{}, words...)
		for _, x := range alpha {
			cands = append(cands, x)
			for _, y := range alpha {
				if ctx.Thorough() || ctx.Rng.Intn(4) == 0 {
					cands = append(cands, x+y)
				}
			}
		}
		for i := 0; i < ctx.Pick(40, 400); i++ {
			s := ""
			for j := 0; j < 3; j++ {
				s += alpha[ctx.Rng.Intn(len(alpha))]
			}
			cands = append(cands, s)
		}
		// every single byte of the ASCII range on its own and behind a letter, as a graph name (and, thorough, as a property
		// name): the punctuation list of gripql/util.go:validate against the one of Model/Keys.v, entry by entry
		for b := 1; b < 128; b++ {
			inputs = append(inputs, c16Input{Driver: "badger", Kind: "graph", G: bstr([]byte{byte(b)})}, c16Input{Driver: "badger", Kind: "graph", G: bstr([]byte{'a', byte(b)})})
			if ctx.Thorough() {
				inputs = append(inputs, c16Input{Driver: "badger", Kind: "field", ID: bstr([]byte{byte(b)})}, c16Input{Driver: "badger", Kind: "field", ID: bstr([]byte{'a', byte(b)})})
			}
		}
		drivers := []string{"badger"}
		if ctx.Thorough() {
			drivers = []string{"badger", "pebble"}
		}
		if !ctx.Thorough() {
			for _, c := range words {
				inputs = append(inputs, c16Input{Driver: "pebble", Kind: "vertex", ID: "nv", Label: bstr(c)},
					c16Input{Driver: "pebble", Kind: "edge", ID: "ne", Label: bstr(c), From: "a", To: "b"},
					c16Input{Driver: "pebble", Kind: "vertex", ID: bstr(c), Label: "L"})
			}
		}
		// a bulk load (gi.BulkAdd, what the server's BulkAdd stream and `grip load` use) that carries the element between a new
		// vertex and an overwrite of a stored one: refused as a whole and without a trace, or stored as a whole
		for _, c := range words {
			for _, d := range []string{"badger", "pebble"} {
				inputs = append(inputs, c16Input{Driver: d, Kind: "bulkvertex", ID: "nv", Label: bstr(c)}, c16Input{Driver: d, Kind: "bulkvertex", ID: bstr(c), Label: "L"})
			}
		}
		for _, d := range drivers {
			for i, c := range cands {
				if i%6 == 0 {
					inputs = append(inputs, c16Input{Driver: d, Kind: "bulkvertex", ID: "nv", Label: bstr(c)})
				}
				inputs = append(inputs, c16Input{Driver: d, Kind: "graph", G: bstr(c)})
				inputs = append(inputs, c16Input{Driver: d, Kind: "vertex", ID: bstr(c), Label: "L"})
				inputs = append(inputs, c16Input{Driver: d, Kind: "vertex", ID: "nv", Label: bstr(c)})
				inputs = append(inputs, c16Input{Driver: d, Kind: "field", ID: bstr(c)})
				o := cands[(i*7+3)%len(cands)]
				switch i % 4 {
				case 0:
					inputs = append(inputs, c16Input{Driver: d, Kind: "edge", ID: bstr(c), Label: "M", From: "a", To: "b"})
				case 1:
					inputs = append(inputs, c16Input{Driver: d, Kind: "edge", ID: "ne", Label: bstr(c), From: "a", To: "b"})
				case 2:
					inputs = append(inputs, c16Input{Driver: d, Kind: "edge", ID: "ne", Label: "M", From: bstr(c), To: bstr(o)})
				default:
					inputs = append(inputs, c16Input{Driver: d, Kind: "edge", ID: bstr(o), Label: "M", From: "b", To: bstr(c)})
				}
			}
			vals := []interface{}{nil, true, false, 0.0, -0.0, 1.5, math.Pow(2, 53), -math.Pow(2, 53), 1e308, 5e-324, "", "s", "é\U0001d11e",
				[]interface{}{}, map[string]interface{}{}, []interface{}{[]interface{}{}, map[string]interface{}{"x": []interface{}{nil, 1.0}}},
				map[string]interface{}{"a": map[string]interface{}{"b": map[string]interface{}{"c": []interface{}{1.0, "t", nil}}}}}
			for _, v := range vals {
				inputs = append(inputs, c16Input{Driver: d, Kind: "value", Value: v})
			}
		}
	}
	if ctx.Replay == nil {
		// the key constructors themselves, byte for byte (the theorems of Properties/C16.v are about these strings):
		// components over the same alphabet, separator bytes included
		pool := []string{"g", "gg", "a", "ab", "L", "LL", "e", "x.v.label", "a\x00b", "\x00", "", "\xc3\xa9", "|", "v", "label", "a b", "\x01", "\xff"}
		for i := 0; i < ctx.Pick(250, 2500); i++ {
			pk := func() bstr { return bstr(pool[ctx.Rng.Intn(len(pool))]) }
			inputs = append(inputs, c16Input{Driver: "none", Kind: "keys", G: pk(), ID: pk(), Label: pk(), From: pk(), To: pk(), Field: pk()})
		}
	}
	kinds := map[string]string{"graph": "KGraphName", "vertex": "KVertex", "bulkvertex": "KVertex", "edge": "KEdge", "field": "KFieldName", "value": "KValue", "keys": "KKeys"}
	for _, in := range inputs {
		if in.Kind == "keys" {
			g, v, l, sr, d, f := string(in.G), string(in.ID), string(in.Label), string(in.From), string(in.To), string(in.Field)
			ks := [][]byte{kvgraph.GraphKey(g), kvgraph.VertexKey(g, v), kvgraph.VertexListPrefix(g), kvgraph.EdgeKey(g, v, sr, d, l, 1), kvgraph.EdgeKeyPrefix(g, v),
				kvgraph.EdgeListPrefix(g), kvgraph.SrcEdgeKey(g, sr, d, v, l, 1), kvgraph.SrcEdgePrefix(g, sr), kvgraph.DstEdgeKey(g, sr, d, v, l, 1), kvgraph.DstEdgePrefix(g, d),
				kvindex.EntryKey(f, kvindex.TermString, []byte(l), v), kvindex.EntryValuePrefix(f, kvindex.TermString, []byte(l)), kvindex.EntryPrefix(f),
				kvindex.TermKey(f, kvindex.TermString, []byte(l)), kvindex.TermPrefix(f)}
			items := make([]string, len(ks))
			hex := make([]string, len(ks))
			for i, k := range ks {
				items[i] = bcoq(bstr(k))
				hex[i] = fmt.Sprintf("%q", k)
			}
			c := coq.Record("ck", "KKeys", "cg", bcoq(in.G), "cid", bcoq(in.ID), "clabel", bcoq(in.Label), "cfrom", bcoq(in.From), "cto", bcoq(in.To),
				"cacc", "true", "cread", "true", "cothers", "true", "cfield", bcoq(in.Field), "ckeys", coq.List(items))
			key, _ := json.Marshal(in)
			ctx.Add(Case{Input: in, Observed: hex, Coq: c, Nontrivial: true, Key: string(key), Tags: []string{"kind=keys"}})
			continue
		}
		ob := execC16(in)
		c := coq.Record("ck", kinds[in.Kind], "cg", bcoq(in.G), "cid", bcoq(in.ID), "clabel", bcoq(in.Label),
			"cfrom", bcoq(in.From), "cto", bcoq(in.To), "cacc", coq.Bool(ob.Accepted), "cread", coq.Bool(ob.Read), "cothers", coq.Bool(ob.Others),
			"cfield", "[]", "ckeys", "[]")
		key, _ := json.Marshal(in)
		acc := "rejected"
		if ob.Accepted {
			acc = "accepted"
		}
		ctx.Add(Case{Input: in, Observed: ob, Coq: c, Nontrivial: ob.Accepted, Key: string(key),
			Tags: []string{"kind=" + in.Kind, acc, "driver=" + in.Driver}})
	}
	return nil
}
