#!/usr/bin/env python3
"""Assembles /verif/DESIGN.md: hand-written narrative (below) + tables generated from the committed data
(manifest_data.py, propconf.py, Properties/*.v, known_findings.json, MANIFEST.hooks, seeded/*/meta.json)."""
import json, os, re, sys, glob
VERIF = os.path.dirname(os.path.dirname(os.path.abspath(__file__)))
sys.path.insert(0, os.path.join(VERIF, "bin"))
import manifest_data, propconf

props = {}
for l in open(os.path.join(VERIF, "properties.jsonl")):
    d = json.loads(l); props[d["id"]] = d
known = json.load(open(os.path.join(VERIF, "known_findings.json")))["findings"]

def theorems(pid):
    src = open(os.path.join(VERIF, "coq/Properties/%s.v" % pid)).read()
    return re.findall(r"^\s*(?:Theorem|Example|Corollary)\s+([A-Za-z0-9_]+)", src, re.M)

HEAD = open(os.path.join(VERIF, "bin/design_head.md")).read()
EXTRA = json.load(open(os.path.join(VERIF, "bin/design_extra.json")))
TAIL = open(os.path.join(VERIF, "bin/design_tail.md")).read()

nfixed = sum(1 for k in known if k["status"] == "fixed"); nknown = sum(1 for k in known if k["status"] == "known")
ncommits = len(set(k["commit"] for k in known if k["status"] == "fixed"))
HEAD = HEAD.replace("@@NFIND@@", str(nfixed + nknown)).replace("@@NFIXED@@", str(nfixed)).replace("@@NKNOWN@@", str(nknown)).replace("@@NCOMMITS@@", str(ncommits))
out = [HEAD]
out.append("## 6. Per property: model, theorems, tie, limits\n")
out.append("Generated from `bin/manifest_data.py` (the claim), `coq/Properties/Cxx.v` (theorem names), `bin/propconf.py`\n(trusted base) and `bin/design_extra.json` (files, remarks). `bin/check Cxx` is the quick command, `bin/check Cxx --tier thorough` the thorough one.\n")
for pid in sorted(props):
    p = props[pid]; c = manifest_data.CLAIMED[pid]; pc = propconf.PROPS[pid]; ex = EXTRA.get(pid, {})
    out.append("### %s %s\n" % (pid, p["title"]))
    out.append("*Files.* %s\n" % ex.get("files", ""))
    out.append("*Claim.* %s\n" % c["text"])
    out.append("*Theorems and examples in `Properties/%s.v`:* %s. All print `Closed under the global context`.\n" % (pid, ", ".join("`%s`" % t for t in theorems(pid))))
    if pc.get("translators"):
        out.append("*Regenerated from source on every run:* %s.\n" % ", ".join("`Gen/%s.v`" % t for t in pc["translators"]))
    out.append("*Trusted / modelled rather than verified.*\n" + "\n".join("- " + t for t in pc["trusted_base"]) + "\n")
    if pc.get("assumptions"):
        out.append("*Assumptions.* " + "; ".join(pc["assumptions"]) + ".\n")
    if c.get("note"):
        out.append("*Limits.* %s\n" % c["note"])
    if ex.get("remarks"):
        out.append("*Remarks.* %s\n" % ex["remarks"])
    fx = [k for k in known if k["property"] == pid and k["status"] == "fixed"]
    kn = [k for k in known if k["property"] == pid and k["status"] == "known"]
    if fx:
        out.append("*Repaired defects:* " + "; ".join("`%s` %s" % (k["commit"], k["what"]) for k in fx) + ".\n")
    if kn:
        out.append("*Known findings (recorded, not repaired):* " + "; ".join("(class %s) %s" % (k.get("class"), k["what"]) for k in kn) + ".\n")

out.append("---------------------------------------------------------------------------------------------\n")
out.append("## 7. Genuine defects of bmeg/grip found by the checks\n")
out.append("All entries are in `known_findings.json` (committed, never written at run time). `fixed` entries were repaired by a minimal\nunguarded `fix:` commit in /repo and suppress nothing; `known` entries are printed as `KNOWN-FINDING` lines when re-observed.\n")
out.append("### 7.1 Repaired (%d fix: commits)\n" % len(set(k["commit"] for k in known if k["status"] == "fixed")))
out.append("| property | commit | what failed |\n|---|---|---|")
for k in known:
    if k["status"] == "fixed":
        out.append("| %s | `%s` | %s |" % (k["property"], k["commit"], k["what"].replace("|", "\\|")))
out.append("\n### 7.2 Recorded as known findings\n")
out.append("| property | class | what fails | why not repaired |\n|---|---|---|---|")
WHY = EXTRA.get("_why_known", {})
for k in known:
    if k["status"] == "known":
        out.append("| %s | %s | %s | %s |" % (k["property"], k.get("class"), k["what"].replace("|", "\\|"), WHY.get(k["id"], WHY.get(k["property"], ""))))
out.append("")
out.append("---------------------------------------------------------------------------------------------\n")
out.append("## 8. Hooks in /repo (guard: Go build tag `verif`, all add-only)\n")
out.append("```\n" + open(os.path.join(VERIF, "MANIFEST.hooks")).read() + "```\n")
out.append("With the tag off none of these files is compiled; `bin/repo_tests` runs the pinned suite (123 stable tests) without the tag.\n")
out.append("---------------------------------------------------------------------------------------------\n")
out.append("## 9. Seeded property-breaking changes and the checks that catch them\n")
seeded = sorted(glob.glob(os.path.join(VERIF, "seeded/*/meta.json")))
if seeded:
    out.append("Each directory `seeded/<id>/` holds `patch.diff` (against the current /repo tree), `meta.json` and a short demonstration. The changes\nwere written by fresh sub-agents that were given only the property text and a scratch worktree of /repo; each was confirmed by me\n(builds, pinned suite passes, property visibly broken) before the checks were run on it. `caught` = the property's quick check exits 1 with a VIOLATION line.\n\nFour rounds were run. Round 1 (ids `_1`, `_2`): 40 changes, 32 caught at once, 8 after the checks were strengthened. Round 2 (ids `_3`, `_4`; the agents were told what round 1 had tried and asked for other mechanisms): 40 changes, 20 caught at once, 3 caught by a neighbouring property's existing check (a NUL in an edge label by C16, the jump queue by C13, the bulk write filter by C05), 17 only after the generators, corpora or observations were extended as described in the last column (every `MISSED` row; one of them, the serializer, by C11's new spool check). Round 3 (ids `_5`, `_6`; the agents were told what rounds 1 and 2 had tried and asked for the other mechanisms, rare branches and feature interactions): 40 changes, 18 caught at once, 22 only after strengthening (every `MISSED` row), four of those by a neighbouring property's check whose own check cannot see the change (a load-elided in-edge by C02, the edge key prefix and the index-field prefix test by C16, the memoised has() verdict by C01). Extending the checks for round 3 also exposed five genuine defects of the unchanged tree, all repaired (gripper and kvgraph null-producing moves, the index list of another graph, the StreamBatch error accumulator, Pebble/LevelDB bulk writes committing on error). Round 4 (ids `_7`, `_8`; same instructions, with the 120 earlier changes listed): 40 changes, 19 caught at once, 19 only after strengthening (three of them by a neighbouring property: Badger's delete-by-prefix at 10000 keys by C10, the bulk write filter by C05, and C03's label filter also by C01), one not caught (C17_7: needs an 80 MB job result read by a slow consumer, beyond what either tier spools) and one that is no longer a violation (C15_7 was written against the tree before fix fe16478 and has no observable effect after it). Working on round 4 exposed three more genuine defects of the unchanged tree, all repaired: the gripper multiplexer deadlock behind an absent row (fe16478), BoltKV.Get handing out bolt's own memory (cd14f35), and the asymmetry between kvgraph's outNull and inNull over dangling edges (b223fe4). All round-4 catches were confirmed by running the committed quick check on the patched tree; two of them depend on the schedule (the batcher's duplicated tail batch was seen in 3 of 4 quick runs, the jump queue's reordering in every run so far), and the thorough tier repeats those inputs five to seven times as often. Of the 160 stored changes 158 are caught by the committed checks; the strengthened checks pass on the unchanged tree. One agent of round 2 also reported a crash of the unchanged tree (select of a mark taken on a null traveler), repaired by `fix:` 54d578c.\n")
    out.append("| id | property | change | caught by | how |\n|---|---|---|---|---|")
    for f in seeded:
        m = json.load(open(f))
        out.append("| %s | %s | %s | %s | %s |" % (os.path.basename(os.path.dirname(f)), m.get("property"), m.get("summary", "").replace("|", "\\|"), m.get("caught_by", ""), m.get("how", "").replace("|", "\\|")))
    out.append("")
else:
    out.append("(none recorded yet)\n")
out.append(TAIL)
open(os.path.join(VERIF, "DESIGN.md"), "w").write("\n".join(out))
print("DESIGN.md written:", sum(len(x.splitlines()) for x in out), "lines")
