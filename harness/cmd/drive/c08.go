package main

import (
	"encoding/json"
	"math"
	"math/rand"

	"github.com/bmeg/grip/engine/logic"
	"github.com/bmeg/grip/gdbi"

	"gripverif/internal/coq"
)

func init() { props["C08"] = runC08 }

type c08Input struct {
	Data map[string]interface{} `json:"data"`
	Expr hExpr                  `json:"expr"`
}

var c08Values = []interface{}{
	nil, true, false, -1.0, 0.0, 1.0, 2.0, 2.5, 30.0, 45.0, math.Pow(2, 53), 0.25,
	"", "7", "-1", "2.5", "abc", "7a", " 7", "1e1", "+3", ".5", "5.", "30", "true",
	[]interface{}{}, []interface{}{1.0, 2.0}, []interface{}{"a", 1.0, nil}, []interface{}{30.0, 45.0}, []interface{}{"30", "45"},
	[]interface{}{30.0}, []interface{}{30.0, 45.0, 50.0}, []interface{}{45.0, 30.0}, []interface{}{"x", 45.0}, []interface{}{[]interface{}{1.0}},
	map[string]interface{}{}, map[string]interface{}{"k": 1.0}, map[string]interface{}{"a": []interface{}{1.0}, "b": "x"},
}

func randCond(rng *rand.Rand) hExpr {
	keys := []string{"x", "x", "x", "y", "missing", "_label", "_gid", "n.k", "_score", "_meta.k", "_data.x", "$.x", "$._score", "_labels", "gid"}
	return hExpr{Kind: "cond", Key: keys[rng.Intn(len(keys))], Op: copList[rng.Intn(len(copList))], Arg: c08Values[rng.Intn(len(c08Values))]}
}
func randExpr(rng *rand.Rand, depth int) hExpr {
	if depth == 0 || rng.Intn(3) == 0 {
		if rng.Intn(25) == 0 {
			return hExpr{Kind: "unset"}
		}
		return randCond(rng)
	}
	switch rng.Intn(3) {
	case 0:
		return hExpr{Kind: "not", Es: []hExpr{randExpr(rng, depth-1)}}
	case 1:
		n := rng.Intn(4)
		es := make([]hExpr, n)
		for i := range es {
			es[i] = randExpr(rng, depth-1)
		}
		return hExpr{Kind: "and", Es: es}
	default:
		n := rng.Intn(4)
		es := make([]hExpr, n)
		for i := range es {
			es[i] = randExpr(rng, depth-1)
		}
		return hExpr{Kind: "or", Es: es}
	}
}

func runC08(ctx *Ctx) error {
	ctx.EvalMod = "Eval_C08"
	ctx.CaseTy = "c08_case"
	ctx.Shard = 400
	ctx.Exhaustive = true
	ctx.Rule = "exhaustive grid: 12 operators x 38 element values (missing, null, booleans, boundary numbers, numeric and non-numeric text, lists, maps) x 38 arguments (incl. wrong arity / wrong-typed bound lists), direct calls of logic.MatchesHasExpression; plus random Boolean combinations (and/or/not/unset, empty lists) to depth 2 (quick) / 5 (thorough) over several keys incl. _label/_gid/_data.x/nested/missing and property names that merely start with an underscore (_score, _meta.k, _labels) or spell a reserved field without it (gid); non-trivial = condition on a present value with an argument of the operator's expected shape, or a nested expression; distinct by (data, expression)"
	var inputs []c08Input
	if ctx.Replay != nil {
		var in c08Input
		if err := json.Unmarshal(ctx.Replay, &in); err != nil {
			return err
		}
		inputs = []c08Input{in}
	} else {
		for _, op := range copList {
			for vi, v := range c08Values {
				for _, a := range c08Values {
					data := map[string]interface{}{"x": v}
					if vi == 0 && false {
						data = map[string]interface{}{}
					}
					inputs = append(inputs, c08Input{Data: data, Expr: hExpr{Kind: "cond", Key: "x", Op: op, Arg: a}})
				}
			}
			for _, a := range c08Values { // missing field
				inputs = append(inputs, c08Input{Data: map[string]interface{}{}, Expr: hExpr{Kind: "cond", Key: "x", Op: op, Arg: a}})
			}
		}
		n := ctx.Pick(600, 6000)
		depth := 2
		if ctx.Thorough() {
			depth = 5
		}
		for i := 0; i < n; i++ {
			data := map[string]interface{}{"x": c08Values[ctx.Rng.Intn(len(c08Values))], "y": c08Values[ctx.Rng.Intn(len(c08Values))],
				"n": map[string]interface{}{"k": c08Values[ctx.Rng.Intn(len(c08Values))]},
				// property names that merely look like the reserved fields
				"_score": c08Values[ctx.Rng.Intn(len(c08Values))], "_meta": map[string]interface{}{"k": c08Values[ctx.Rng.Intn(len(c08Values))]},
				"_labels": "L", "gid": "v1"}
			inputs = append(inputs, c08Input{Data: data, Expr: randExpr(ctx.Rng, depth)})
		}
	}
	for _, in := range inputs {
		data := normArg(in.Data).(map[string]interface{})
		tr := &gdbi.BaseTraveler{Current: &gdbi.DataElement{ID: "v1", Label: "L", Data: data, Loaded: true}}
		ob := logic.MatchesHasExpression(tr, in.Expr.proto())
		nt := in.Expr.Kind != "cond" || data["x"] != nil
		key, _ := json.Marshal(in)
		tags := []string{"kind=" + in.Expr.Kind}
		if in.Expr.Kind == "cond" {
			tags = append(tags, "op="+in.Expr.Op)
		}
		if ob {
			tags = append(tags, "result=true")
		} else {
			tags = append(tags, "result=false")
		}
		ctx.Add(Case{Input: in, Observed: ob, Coq: coq.Record("cdata", jmapCoq(data), "cexpr", in.Expr.coq(), "cobs", coq.Bool(ob)),
			Nontrivial: nt, Key: string(key), Tags: tags})
	}
	return nil
}
