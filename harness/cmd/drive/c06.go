package main

import (
	"context"
	"encoding/json"
	"fmt"
	"math/rand"
	"os"
	"time"

	"github.com/bmeg/grip/gripql"
	"google.golang.org/protobuf/types/known/structpb"

	"gripverif/internal/coq"
)

func init() {
	props["C06"] = runC06
	workers["srv"] = func(args []string) { workerLoop(srvWorker) }
}

type editCall struct {
	Op    string   `json:"op"` // addgraph delgraph addv adde bulk delv dele
	Graph string   `json:"graph"`
	ID    string   `json:"id,omitempty"`
	Label string   `json:"label,omitempty"`
	From  string   `json:"from,omitempty"`
	To    string   `json:"to,omitempty"`
	Elems []bulkEl `json:"elems,omitempty"`
}
type bulkEl struct {
	Graph string `json:"graph"`
	Kind  string `json:"kind"` // v e none
	ID    string `json:"id"`
	Label string `json:"label"`
	From  string `json:"from,omitempty"`
	To    string `json:"to,omitempty"`
}

type c06Req struct {
	Populated bool       `json:"populated"`
	Graph     string     `json:"graph"` // graph named in traversal requests
	Progs     [][]tStmt  `json:"progs,omitempty"`
	Edits     []editCall `json:"edits,omitempty"`
	NoWorkDir bool       `json:"no_workdir,omitempty"` // the server's work directory disappears before the requests arrive
}

var hangAfter = 30 * time.Second

type c06Out struct {
	Class string `json:"class"` // rows error hang
	N     int    `json:"n,omitempty"`
	Err   string `json:"err,omitempty"`
}

func srvWorker(raw json.RawMessage) interface{} {
	var req c06Req
	if err := json.Unmarshal(raw, &req); err != nil {
		return []c06Out{{Class: "error", Err: err.Error()}}
	}
	env, err := newSrvEnv("badger")
	if err != nil {
		return []c06Out{{Class: "error", Err: err.Error()}}
	}
	// the store is left open: goroutines of finished requests may still touch it (they are leaked by
	// some loop programs), and closing it under them would crash the worker for a reason that is ours
	defer os.RemoveAll(env.dir)
	ctx := context.Background()
	env.srv.AddGraph(ctx, &gripql.GraphID{Graph: "g"})
	if req.Populated {
		fg := fixedGraph()
		// the same field names holding every other JSON kind: null, scalar where a container is expected and vice versa
		odd := []map[string]interface{}{
			{"tags": nil, "n": nil, "name": nil, "w": nil}, {"tags": "notalist", "n": "s", "name": []interface{}{}, "w": "x"},
			{"tags": 5.0, "n": 1.5, "name": map[string]interface{}{}, "w": true}, {"tags": map[string]interface{}{"0": "z"}, "n": []interface{}{nil, map[string]interface{}{"k": nil}}, "name": 7.0, "w": []interface{}{1.0}},
			{"tags": []interface{}{nil}, "n": map[string]interface{}{"k": map[string]interface{}{"z": nil}}, "name": true, "w": map[string]interface{}{}},
		}
		for i, d := range odd {
			fg.V = append(fg.V, tVertex{ID: fmt.Sprintf("odd%d", i), Label: "P", Data: d})
			fg.E = append(fg.E, tEdge{ID: fmt.Sprintf("oe%d", i), Label: "knows", From: "a", To: fmt.Sprintf("odd%d", i), Data: d})
		}
		for _, v := range fg.V {
			s, _ := structpb.NewStruct(normArg(v.Data).(map[string]interface{}))
			env.srv.AddVertex(ctx, &gripql.GraphElement{Graph: "g", Vertex: &gripql.Vertex{Gid: v.ID, Label: v.Label, Data: s}})
		}
		for _, e := range fg.E {
			s, _ := structpb.NewStruct(normArg(e.Data).(map[string]interface{}))
			env.srv.AddEdge(ctx, &gripql.GraphElement{Graph: "g", Edge: &gripql.Edge{Gid: e.ID, Label: e.Label, From: e.From, To: e.To, Data: s}})
		}
	}
	outs := []c06Out{}
	guard := func(f func() c06Out) c06Out {
		ch := make(chan c06Out, 1)
		go func() { ch <- f() }()
		select {
		case o := <-ch:
			return o
		case <-time.After(hangAfter):
			return c06Out{Class: "hang"}
		}
	}
	if req.NoWorkDir {
		os.RemoveAll(env.dir + "/work")
	}
	for _, p := range req.Progs {
		p := p
		outs = append(outs, guard(func() c06Out {
			st := &travStream{fakeStream: fakeStream{ctx: ctx}}
			err := env.srv.Traversal(&gripql.GraphQuery{Graph: req.Graph, Query: progProto(p)}, st)
			if err != nil {
				return c06Out{Class: "error", Err: err.Error(), N: len(st.rows)}
			}
			return c06Out{Class: "rows", N: len(st.rows)}
		}))
	}
	for _, e := range req.Edits {
		e := e
		outs = append(outs, guard(func() c06Out {
			var err error
			switch e.Op {
			case "addgraph":
				_, err = env.srv.AddGraph(ctx, &gripql.GraphID{Graph: e.Graph})
			case "delgraph":
				_, err = env.srv.DeleteGraph(ctx, &gripql.GraphID{Graph: e.Graph})
			case "addv":
				_, err = env.srv.AddVertex(ctx, &gripql.GraphElement{Graph: e.Graph, Vertex: &gripql.Vertex{Gid: e.ID, Label: e.Label}})
			case "adde":
				_, err = env.srv.AddEdge(ctx, &gripql.GraphElement{Graph: e.Graph, Edge: &gripql.Edge{Gid: e.ID, Label: e.Label, From: e.From, To: e.To}})
			case "delv":
				_, err = env.srv.DeleteVertex(ctx, &gripql.ElementID{Graph: e.Graph, Id: e.ID})
			case "dele":
				_, err = env.srv.DeleteEdge(ctx, &gripql.ElementID{Graph: e.Graph, Id: e.ID})
			case "getv":
				_, err = env.srv.GetVertex(ctx, &gripql.ElementID{Graph: e.Graph, Id: e.ID})
			case "gete":
				_, err = env.srv.GetEdge(ctx, &gripql.ElementID{Graph: e.Graph, Id: e.ID})
			case "labels":
				_, err = env.srv.ListLabels(ctx, &gripql.GraphID{Graph: e.Graph})
			case "bulk":
				bs := &bulkStream{fakeStream: fakeStream{ctx: ctx}}
				for _, x := range e.Elems {
					ge := &gripql.GraphElement{Graph: x.Graph}
					if x.Kind == "v" {
						ge.Vertex = &gripql.Vertex{Gid: x.ID, Label: x.Label}
					} else if x.Kind == "e" {
						ge.Edge = &gripql.Edge{Gid: x.ID, Label: x.Label, From: x.From, To: x.To}
					}
					bs.elems = append(bs.elems, ge)
				}
				err = env.srv.BulkAdd(bs)
				if err == nil && bs.res != nil {
					return c06Out{Class: "rows", N: int(bs.res.InsertCount)*1000 + int(bs.res.ErrorCount)}
				}
			}
			if err != nil {
				return c06Out{Class: "error", Err: err.Error()}
			}
			return c06Out{Class: "rows"}
		}))
	}
	return outs
}

// ---------- hostile request generator ----------
func hostileProgs(rng *rand.Rand, n int) [][]tStmt {
	out := [][]tStmt{}
	weirdKeys := []string{"x[0]", "tags[0]", "tags[5]", "n[0]", "name[0]", "", "$", "$.", "a..b", "$undefined.x", "$m1", "_data", "_data.name", "$.name", "n.k.z", "$m1._gid[0]", ".", "[0]"}
	weirdArgs := []interface{}{nil, true, 1.0, "x", []interface{}{}, []interface{}{1.0}, []interface{}{"a", 1.0}, map[string]interface{}{"a": 1.0}, []interface{}{nil, nil}, []interface{}{"1", "2"}, []interface{}{[]interface{}{1.0}, 2.0}}
	nullOps := []string{"outNull", "inNull", "outENull", "inENull"}
	follow := []tStmt{{Op: "in"}, {Op: "out"}, {Op: "both"}, {Op: "inE"}, {Op: "outE"}, {Op: "bothE"}, {Op: "hasLabel", Strs: []string{"P"}}, {Op: "hasId", Strs: []string{"a"}},
		{Op: "hasKey", Strs: []string{"name"}}, {Op: "unwind", Str: "tags"}, {Op: "fields", Strs: []string{"name"}}, {Op: "fields", Strs: []string{"-name"}}, {Op: "as", Str: "m1"},
		{Op: "select", Strs: []string{"m1"}}, {Op: "select", Strs: []string{"m1", "zz"}}, {Op: "distinct"}, {Op: "distinct", Strs: []string{"name"}}, {Op: "count"},
		{Op: "render", Tpl: map[string]interface{}{"a": "name"}}, {Op: "path"}, {Op: "limit", N: 1}, {Op: "range", N: -3, M: -7},
		{Op: "set", Str: "c", Tpl: 0.0}, {Op: "increment", Str: "c", N: 1}, {Op: "set", Str: "$m1.c", Tpl: 1.0}, {Op: "increment", Str: "$m1.c", N: 2},
		{Op: "has", Has: &hExpr{Kind: "cond", Key: "name", Op: "eq", Arg: "x"}},
		{Op: "aggregate", Aggs: []tAgg{{Name: "a", Kind: "term", Field: "name"}}}, {Op: "aggregate", Aggs: []tAgg{{Name: "h", Kind: "histogram", Field: "w", Interval: 2}}},
		{Op: "outNull"}, {Op: "inENull"}}
	// every null-producing step followed by every other step, from a vertex start
	for _, no := range nullOps {
		for _, f := range follow {
			out = append(out, []tStmt{{Op: "V"}, {Op: no, Strs: []string{"nolabel"}}, f})
			out = append(out, []tStmt{{Op: "V"}, {Op: no}, f, {Op: "count"}})
		}
		out = append(out, []tStmt{{Op: "E"}, {Op: no}})
	}
	// every step that replaces what a traveler carries (count, aggregation, render, path, selection) followed by
	// every other step: the ones the compiler accepts there must cope with a traveler that is not an element
	producers := []tStmt{{Op: "count"}, {Op: "aggregate", Aggs: []tAgg{{Name: "a", Kind: "term", Field: "name"}}},
		{Op: "aggregate", Aggs: []tAgg{{Name: "h", Kind: "histogram", Field: "w", Interval: 2}, {Name: "c", Kind: "count"}}},
		{Op: "render", Tpl: map[string]interface{}{"a": "name"}}, {Op: "path"}, {Op: "select", Strs: []string{"m1", "m1"}}}
	for _, pr := range producers {
		for _, f := range follow {
			out = append(out, []tStmt{{Op: "V"}, {Op: "as", Str: "m1"}, pr, f})
			out = append(out, []tStmt{{Op: "E"}, {Op: "as", Str: "m1"}, pr, f, {Op: "as", Str: "m2"}, {Op: "limit", N: 3}})
		}
	}
	// marks taken on null travelers, then selected / read
	for _, no := range nullOps {
		out = append(out,
			[]tStmt{{Op: "V"}, {Op: "as", Str: "x"}, {Op: no, Strs: []string{"nolabel"}}, {Op: "as", Str: "y"}, {Op: "select", Strs: []string{"x", "y"}}},
			[]tStmt{{Op: "V"}, {Op: no}, {Op: "as", Str: "y"}, {Op: "select", Strs: []string{"y"}}},
			[]tStmt{{Op: "V"}, {Op: no, Strs: []string{"nolabel"}}, {Op: "as", Str: "y"}, {Op: "out"}, {Op: "select", Strs: []string{"y", "y"}}},
			[]tStmt{{Op: "V"}, {Op: no, Strs: []string{"nolabel"}}, {Op: "as", Str: "y"}, {Op: "render", Tpl: map[string]interface{}{"a": "$y.name"}}},
			[]tStmt{{Op: "V"}, {Op: no, Strs: []string{"nolabel"}}, {Op: "as", Str: "y"}, {Op: "has", Has: &hExpr{Kind: "cond", Key: "$y.name", Op: "eq", Arg: "x"}}})
	}
	// steps on unloaded elements
	for _, f := range follow {
		out = append(out, []tStmt{{Op: "V"}, {Op: "outE"}, f, {Op: "out"}})
		out = append(out, []tStmt{{Op: "V"}, {Op: "outE"}, {Op: "as", Str: "m1"}, {Op: "out"}, f})
		out = append(out, []tStmt{{Op: "V"}, {Op: "as", Str: "m1"}, {Op: "out"}, f, {Op: "count"}})
	}
	// weird keys / args in has, hasKey, distinct, unwind, fields, render, set, increment, aggregations
	for _, k := range weirdKeys {
		for _, op := range []string{"eq", "gt", "inside", "within", "contains"} {
			a := weirdArgs[rng.Intn(len(weirdArgs))]
			out = append(out, []tStmt{{Op: "V"}, {Op: "has", Has: &hExpr{Kind: "cond", Key: k, Op: op, Arg: a}}})
		}
		out = append(out, []tStmt{{Op: "V"}, {Op: "hasKey", Strs: []string{k}}}, []tStmt{{Op: "V"}, {Op: "distinct", Strs: []string{k}}},
			[]tStmt{{Op: "V"}, {Op: "unwind", Str: k}}, []tStmt{{Op: "V"}, {Op: "fields", Strs: []string{k}}}, []tStmt{{Op: "V"}, {Op: "fields", Strs: []string{"-" + k}}},
			[]tStmt{{Op: "V"}, {Op: "render", Tpl: k}}, []tStmt{{Op: "V"}, {Op: "set", Str: k, Tpl: 1.0}}, []tStmt{{Op: "V"}, {Op: "increment", Str: k, N: 1}},
			[]tStmt{{Op: "V"}, {Op: "as", Str: k}}, []tStmt{{Op: "V"}, {Op: "as", Str: "m1"}, {Op: "select", Strs: []string{k}}},
			[]tStmt{{Op: "V"}, {Op: "aggregate", Aggs: []tAgg{{Name: "t", Kind: "term", Field: k}, {Name: "h", Kind: "histogram", Field: k, Interval: 1}, {Name: "p", Kind: "percentile", Field: k, Percents: []float64{50}}, {Name: "f", Kind: "field", Field: k}, {Name: "y", Kind: "type", Field: k}}}})
	}
	for _, a := range weirdArgs {
		for _, k := range []string{"_label", "_gid", "name"} {
			for _, op := range []string{"eq", "within", "without", "inside", "contains"} {
				out = append(out, []tStmt{{Op: "V"}, {Op: "has", Has: &hExpr{Kind: "cond", Key: k, Op: op, Arg: a}}})
				out = append(out, []tStmt{{Op: "V"}, {Op: "has", Has: &hExpr{Kind: "and", Es: []hExpr{{Kind: "cond", Key: k, Op: op, Arg: a}}}}, {Op: "count"}})
			}
		}
		out = append(out, []tStmt{{Op: "V"}, {Op: "render", Tpl: a}})
	}
	// aggregation oddities
	aggs := [][]tAgg{
		{}, {{Name: "a", Kind: "count"}, {Name: "a", Kind: "count"}}, {{Name: "a", Kind: "unknown"}}, {{Name: "", Kind: "term", Field: "name"}},
		{{Name: "h", Kind: "histogram", Field: "w", Interval: 0}}, {{Name: "h", Kind: "histogram", Field: "missing", Interval: 3}},
		{{Name: "p", Kind: "percentile", Field: "w", Percents: []float64{-5, 250}}}, {{Name: "p", Kind: "percentile", Field: "missing", Percents: []float64{50}}},
		{{Name: "t", Kind: "term", Field: "tags", Size: 4000000000}},
	}
	for _, ag := range aggs {
		out = append(out, []tStmt{{Op: "V"}, {Op: "aggregate", Aggs: ag}})
		out = append(out, []tStmt{{Op: "V"}, {Op: "hasLabel", Strs: []string{"none"}}, {Op: "aggregate", Aggs: ag}})
		out = append(out, []tStmt{{Op: "E"}, {Op: "aggregate", Aggs: ag}, {Op: "count"}})
	}
	// structure oddities
	big := int64(4294967295)
	out = append(out,
		[]tStmt{}, []tStmt{{Op: "empty"}}, []tStmt{{Op: "V"}, {Op: "empty"}}, []tStmt{{Op: "count"}}, []tStmt{{Op: "V"}, {Op: "V"}}, []tStmt{{Op: "V"}, {Op: "select", Strs: []string{"u"}}, {Op: "V"}},
		[]tStmt{{Op: "V"}, {Op: "select", Strs: []string{"u"}}}, []tStmt{{Op: "V"}, {Op: "select", Strs: []string{"u"}}, {Op: "count"}},
		[]tStmt{{Op: "V"}, {Op: "select", Strs: []string{"u", "w"}}}, []tStmt{{Op: "V"}, {Op: "as", Str: "a"}, {Op: "count"}, {Op: "as", Str: "a"}, {Op: "limit", N: 0}},
		[]tStmt{{Op: "V"}, {Op: "limit", N: 0}}, []tStmt{{Op: "V"}, {Op: "limit", N: big}}, []tStmt{{Op: "V"}, {Op: "skip", N: big}},
		[]tStmt{{Op: "V"}, {Op: "range", N: -2147483648, M: 2147483647}}, []tStmt{{Op: "V"}, {Op: "range", N: 5, M: 1}}, []tStmt{{Op: "V"}, {Op: "range", N: 0, M: -1}},
		[]tStmt{{Op: "V"}, {Op: "hasLabel"}}, []tStmt{{Op: "V"}, {Op: "hasId"}}, []tStmt{{Op: "V"}, {Op: "hasKey"}}, []tStmt{{Op: "V"}, {Op: "select"}},
		[]tStmt{{Op: "V"}, {Op: "has", Has: &hExpr{Kind: "unset"}}}, []tStmt{{Op: "V"}, {Op: "has", Has: &hExpr{Kind: "and"}}}, []tStmt{{Op: "V"}, {Op: "has", Has: &hExpr{Kind: "not", Es: []hExpr{{Kind: "unset"}}}}},
		[]tStmt{{Op: "V"}, {Op: "jump", Str: "nomark"}}, []tStmt{{Op: "V"}, {Op: "mark", Str: "s"}}, []tStmt{{Op: "V"}, {Op: "mark", Str: "s"}, {Op: "mark", Str: "s"}},
		[]tStmt{{Op: "V"}, {Op: "as", Str: "m"}, {Op: "set", Str: "$m.c", Tpl: 0.0}, {Op: "mark", Str: "s"}, {Op: "out"}, {Op: "increment", Str: "$m.c", N: 1}, {Op: "jump", Str: "s", Has: &hExpr{Kind: "cond", Key: "$m.c", Op: "lt", Arg: 2.0}, N: 1}},
		[]tStmt{{Op: "V"}, {Op: "as", Str: "m"}, {Op: "outE"}, {Op: "as", Str: "e"}, {Op: "out"}, {Op: "select", Strs: []string{"m", "e"}}},
		[]tStmt{{Op: "E"}, {Op: "as", Str: "e"}, {Op: "out"}, {Op: "as", Str: "v"}, {Op: "select", Strs: []string{"e", "v"}}},
	)
	for i := 0; i < n; i++ {
		p := randProgram(rng, 8, progOpts{illTyped: true, markType: genType})
		// inject one oddity
		pos := 1 + rng.Intn(len(p))
		odd := follow[rng.Intn(len(follow))]
		if rng.Intn(3) == 0 {
			odd = tStmt{Op: nullOps[rng.Intn(4)]}
		}
		q := append(append(append([]tStmt{}, p[:pos]...), odd), p[pos:]...)
		out = append(out, q)
	}
	return out
}

func hostileEdits(rng *rand.Rand) [][]editCall {
	el := func(g, kind, id string) bulkEl {
		return bulkEl{Graph: g, Kind: kind, ID: id, Label: "L", From: "a", To: "b"}
	}
	return [][]editCall{
		{{Op: "bulk", Elems: []bulkEl{el("missing", "v", "x"), el("missing", "v", "y")}}},
		{{Op: "bulk", Elems: []bulkEl{el("missing", "v", "x"), el("g", "v", "y"), el("missing2", "e", "z"), el("g", "e", "w")}}},
		{{Op: "bulk", Elems: []bulkEl{el("g", "v", "x"), el("missing", "v", "y"), el("missing", "v", "y2"), el("g", "v", "z")}}},
		{{Op: "bulk", Elems: []bulkEl{}}}, {{Op: "bulk", Elems: []bulkEl{el("g", "none", "")}}}, {{Op: "bulk", Elems: []bulkEl{el("", "v", "x")}}},
		{{Op: "bulk", Elems: []bulkEl{el("g", "v", ""), el("g", "e", ""), {Graph: "g", Kind: "e", ID: "e9", Label: "", From: "", To: ""}}}},
		{{Op: "bulk", Elems: []bulkEl{el("g__schema__", "v", "x"), el("g", "v", "x"), el("g__schema__", "v", "y")}}},
		// a blank graph name right after a failed switch (the handler's own "no graph" value), and after a good one
		{{Op: "bulk", Elems: []bulkEl{el("missing", "v", "x"), el("", "v", "y"), el("", "e", "z")}}},
		{{Op: "bulk", Elems: []bulkEl{el("g", "v", "x"), el("", "v", "y"), el("g", "v", "z"), el("missing", "v", "q"), el("", "v", "r")}}},
		{{Op: "addv", Graph: "missing", ID: "x", Label: "L"}, {Op: "adde", Graph: "missing", ID: "x", Label: "L", From: "a", To: "b"}, {Op: "delv", Graph: "missing", ID: "x"}, {Op: "dele", Graph: "missing", ID: "x"},
			{Op: "delgraph", Graph: "missing"}, {Op: "getv", Graph: "missing", ID: "x"}, {Op: "gete", Graph: "missing", ID: "x"}, {Op: "labels", Graph: "missing"}},
		{{Op: "addv", Graph: "g", ID: "", Label: ""}, {Op: "adde", Graph: "g", ID: "", Label: "L", From: "", To: ""}, {Op: "delv", Graph: "g", ID: "nope"}, {Op: "dele", Graph: "g", ID: "nope"}, {Op: "getv", Graph: "g", ID: "nope"}, {Op: "gete", Graph: "g", ID: "nope"}},
		{{Op: "adde", Graph: "g", ID: "d1", Label: "L", From: "a", To: "b"}, {Op: "dele", Graph: "g", ID: "d1"}, {Op: "gete", Graph: "g", ID: "d1"}, {Op: "delv", Graph: "g", ID: "a"}, {Op: "delv", Graph: "g", ID: "a"}},
		{{Op: "addgraph", Graph: "bad name"}, {Op: "addgraph", Graph: ""}, {Op: "addgraph", Graph: "g"}, {Op: "delgraph", Graph: "g"}, {Op: "delgraph", Graph: "g"}, {Op: "addv", Graph: "g", ID: "x", Label: "L"}, {Op: "addgraph", Graph: "g"}, {Op: "labels", Graph: "g"}},
	}
}

func runC06(ctx *Ctx) error {
	ctx.EvalMod = "Eval_C06"
	ctx.CaseTy = "c06_case"
	ctx.Shard = 400
	ctx.Rule = "requests through the server handlers (Traversal with a fake stream; AddGraph/AddVertex/AddEdge/BulkAdd/Delete*/Get*/ListLabels) in worker sub-processes, on an empty and on a populated graph and against a missing graph: every null-producing step followed by every other step; every step on unloaded elements and marks; 18 odd field paths (index on null, empty, bare $, undefined marks ...) x has/hasKey/distinct/unwind/fields/render/set/increment/as/select/aggregations; 11 wrong-typed condition values x operators x _label/_gid/name (also and()-wrapped, which reaches the optimiser); empty/duplicate/untyped/zero-interval aggregations and aggregations over empty inputs; negative, inverted and extreme ranges; undefined marks, jumps without mark, loops; bulk streams that switch to missing graphs, schema graphs, blank ids; plus random programs with one injected oddity. Outcome classes: rows / error / crash / hang. non-trivial = the request reaches execution (not rejected at compile time); distinct by request"
	type unit struct {
		req  c06Req
		kind string
	}
	units := []unit{}
	if ctx.Replay != nil {
		var r c06Req
		if err := json.Unmarshal(ctx.Replay, &r); err != nil {
			return err
		}
		units = []unit{{req: r, kind: "replay"}}
	} else {
		progs := hostileProgs(ctx.Rng, ctx.Pick(300, 3000))
		for _, pop := range []bool{true, false} {
			for i := 0; i < len(progs); i += 40 {
				j := i + 40
				if j > len(progs) {
					j = len(progs)
				}
				units = append(units, unit{req: c06Req{Populated: pop, Graph: "g", Progs: progs[i:j]}, kind: "trav"})
			}
		}
		units = append(units, unit{req: c06Req{Populated: true, Graph: "missing", Progs: progs[:20]}, kind: "trav"})
		// steps that use temporary storage, on a server whose work directory has gone
		tmpProgs := [][]tStmt{{{Op: "V"}, {Op: "distinct"}}, {{Op: "V"}, {Op: "distinct", Strs: []string{"name"}}}, {{Op: "V"}, {Op: "out"}, {Op: "distinct"}, {Op: "count"}},
			{{Op: "V"}, {Op: "aggregate", Aggs: []tAgg{{Name: "t", Kind: "term", Field: "name"}}}}, {{Op: "V"}, {Op: "limit", N: 1}}}
		units = append(units, unit{req: c06Req{Populated: true, Graph: "g", Progs: tmpProgs, NoWorkDir: true}, kind: "trav"})
		for _, es := range hostileEdits(ctx.Rng) {
			units = append(units, unit{req: c06Req{Populated: true, Graph: "g", Edits: es}, kind: "edit"})
			units = append(units, unit{req: c06Req{Populated: false, Graph: "g", Edits: es}, kind: "edit"})
		}
	}
	reqs := make([]json.RawMessage, len(units))
	for i, u := range units {
		reqs[i], _ = json.Marshal(u.req)
	}
	res := runIsolated("srv", reqs, 8, 25*time.Minute)
	for i, u := range units {
		n := len(u.req.Progs) + len(u.req.Edits)
		var outs []c06Out
		r := res[i]
		if r.Crashed || r.Timeout || json.Unmarshal(r.Out, &outs) != nil || len(outs) != n {
			// find the culprit one request at a time
			single := []json.RawMessage{}
			for _, p := range u.req.Progs {
				b, _ := json.Marshal(c06Req{Populated: u.req.Populated, Graph: u.req.Graph, Progs: [][]tStmt{p}, NoWorkDir: u.req.NoWorkDir})
				single = append(single, b)
			}
			for k := range u.req.Edits {
				// edits are stateful: replay the prefix up to and including k
				b, _ := json.Marshal(c06Req{Populated: u.req.Populated, Graph: u.req.Graph, Edits: u.req.Edits[:k+1], NoWorkDir: u.req.NoWorkDir})
				single = append(single, b)
			}
			sres := runIsolated("srv", single, 8, 90*time.Second)
			outs = make([]c06Out, n)
			for k, sr := range sres {
				var o []c06Out
				if sr.Crashed || sr.Timeout || json.Unmarshal(sr.Out, &o) != nil || len(o) == 0 {
					cls := "crash"
					if sr.Timeout {
						cls = "hang"
					}
					outs[k] = c06Out{Class: cls, Err: lastLines(sr.Stderr, 8)}
				} else {
					outs[k] = o[len(o)-1]
				}
			}
		}
		// confirmation: a crash or hang only counts if it reproduces when the request runs alone
		for k := 0; k < n && k < len(u.req.Progs); k++ {
			if outs[k].Class == "hang" || outs[k].Class == "crash" {
				b, _ := json.Marshal(c06Req{Populated: u.req.Populated, Graph: u.req.Graph, Progs: [][]tStmt{u.req.Progs[k]}, NoWorkDir: u.req.NoWorkDir})
				sr := runIsolated("srv", []json.RawMessage{b}, 1, 120*time.Second)[0]
				var o []c06Out
				if !sr.Crashed && !sr.Timeout && json.Unmarshal(sr.Out, &o) == nil && len(o) == 1 {
					outs[k] = o[0]
				}
			}
		}
		for k := 0; k < n; k++ {
			var in interface{}
			var model string
			if k < len(u.req.Progs) {
				p := u.req.Progs[k]
				in = c06Req{Populated: u.req.Populated, Graph: u.req.Graph, Progs: [][]tStmt{p}, NoWorkDir: u.req.NoWorkDir}
				model = c06ModelClass(p, u.req.Graph)
				if u.req.NoWorkDir {
					model = "MAny" // rows or an error, never a crash
				}
			} else {
				in = c06Req{Populated: u.req.Populated, Graph: u.req.Graph, Edits: u.req.Edits[:k-len(u.req.Progs)+1], NoWorkDir: u.req.NoWorkDir}
				model = "MAny"
			}
			o := outs[k]
			cls := map[string]string{"rows": "ORows", "error": "OError", "crash": "OCrash", "hang": "OHang"}[o.Class]
			if cls == "" {
				cls = "OCrash"
			}
			key, _ := json.Marshal(in)
			ctx.Add(Case{Input: in, Observed: o, Coq: coq.Record("cmodel", model, "cobs", cls), Nontrivial: o.Class == "rows" || (o.Class == "error" && o.N > 0),
				Key: string(key), Tags: []string{"class=" + o.Class, "kind=" + u.kind, fmt.Sprintf("populated=%v", u.req.Populated)}})
		}
	}
	return nil
}

// the model's verdict for programs inside the modelled alphabet: MTyped p (the Coq side runs type_of),
// everything else (set/increment, aggregate, mark/jump, empty statement) is outside the model
func c06ModelClass(p []tStmt, graph string) string {
	if graph != "g" {
		return "MAny"
	}
	for _, s := range p {
		switch s.Op {
		case "V", "E", "in", "out", "both", "inE", "outE", "bothE", "inNull", "outNull", "inENull", "outENull", "has", "hasLabel", "hasId", "hasKey", "as", "select", "fields", "render", "path", "unwind", "distinct", "count", "limit", "skip", "range":
		default:
			return "MAny"
		}
		if s.Op == "limit" || s.Op == "skip" {
			if s.N < 0 || s.N > 1000000 {
				return "MAny"
			}
		}
	}
	if len(p) == 0 {
		return "MAny"
	}
	return "(MTyped " + progCoq(p) + ")"
}
