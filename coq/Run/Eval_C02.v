(* C02: the production plan must return what the literal semantics (Model/Traversal.v) returns. *)
From Grip Require Export Run.Eval_C01.
From Coq Require Import List. Import ListNotations.
Definition known_classes (cs : list c01_case) : list nat := [].
Definition explain (c : c01_case) := Eval_C01.explain c.
