(* Correspondence evaluator for C17: concurrent sessions against the real server (race-detector build) vs the
   interleaving model of acknowledged edits. *)
From Coq Require Import List String Bool ZArith Arith.
Import ListNotations.
From Grip Require Export Model.Bytes Model.Conc.
Local Open Scope string_scope.

Inductive kind := KV | KE.
Inductive wr :=
| WPut (k : kind) (key : string) (label : string) (val : Z) (ack : bool)
| WDel (k : kind) (key : string) (ack : bool).
Record c17_case := {
  c_sessions : list (list wr);
  o_vertices : list (string * (string * Z));
  o_edges : list (string * (string * Z));
  o_races : nat;
  o_crashed : bool;
  o_index_missing : nat }.   (* graph-creation race: acknowledged elements that the label index does not list *)

Definition kind_eqb (a b : kind) := match a, b with KV, KV | KE, KE => true | _, _ => false end.
Definition wkey (w : wr) := match w with WPut k key _ _ _ => (k, key) | WDel k key _ => (k, key) end.
Definition wack (w : wr) := match w with WPut _ _ _ _ a => a | WDel _ _ a => a end.
Definition wval (w : wr) : option (string * Z) := match w with WPut _ _ l v _ => Some (l, v) | WDel _ _ _ => None end.
Definition key_eqb (a b : kind * string) := kind_eqb (fst a) (fst b) && String.eqb (snd a) (snd b).

(* the acknowledged writes of a session as store operations *)
Definition session_ops (s : list wr) : list ((kind * string) * option (string * Z)) :=
  map (fun w => (wkey w, wval w)) (filter wack s).
Definition val_eqb (a b : option (string * Z)) : bool :=
  match a, b with
  | None, None => true
  | Some (l, v), Some (l', v') => String.eqb l l' && Z.eqb v v'
  | _, _ => false
  end.
Definition observed (c : c17_case) (k : kind * string) : option (string * Z) :=
  let tbl := match fst k with KV => o_vertices c | KE => o_edges c end in
  match find (fun p => String.eqb (fst p) (snd k)) tbl with Some p => Some (snd p) | None => None end.

(* interleaving_final, as a check: under every key the store holds the last acknowledged write of some
   session, or nothing if no session wrote it *)
Definition key_ok (c : c17_case) (k : kind * string) : bool :=
  let lasts := flat_map (fun s => match last_write key_eqb k (session_ops s) with Some v => [v] | None => [] end) (c_sessions c) in
  match lasts with
  | [] => val_eqb (observed c k) None
  | _ => existsb (val_eqb (observed c k)) lasts
  end.
Definition all_keys (c : c17_case) : list (kind * string) :=
  flat_map (fun s => map wkey s) (c_sessions c)
  ++ map (fun p => (KV, fst p)) (o_vertices c) ++ map (fun p => (KE, fst p)) (o_edges c).
(* a write that was NOT acknowledged may or may not have happened: such keys are checked only for "a value some
   session tried to write, or absent" *)
Definition key_ok_weak (c : c17_case) (k : kind * string) : bool :=
  let tried := flat_map (fun s => flat_map (fun w => if key_eqb (wkey w) k then [wval w] else []) s) (c_sessions c) in
  val_eqb (observed c k) None || existsb (val_eqb (observed c k)) tried.
Definition has_unacked (c : c17_case) (k : kind * string) : bool :=
  existsb (fun s => existsb (fun w => key_eqb (wkey w) k && negb (wack w)) s) (c_sessions c).

Definition final_ok (c : c17_case) : bool :=
  forallb (fun k => if has_unacked c k then key_ok_weak c k else key_ok c k) (all_keys c).

(* model vs code: the final state is one the interleaving model allows *)
Definition agrees (c : c17_case) : bool := negb (o_crashed c) && final_ok c && (o_index_missing c =? 0)%nat.
(* the property on the observation: alive, no race reported, final state explained by acknowledged edits *)
Definition spec_ok (c : c17_case) : bool :=
  negb (o_crashed c) && (o_races c =? 0)%nat && final_ok c && (o_index_missing c =? 0)%nat.

Fixpoint idx_filter {A} (f : A -> bool) (l : list A) (i : nat) : list nat :=
  match l with [] => [] | x :: r => if f x then i :: idx_filter f r (S i) else idx_filter f r (S i) end.
Definition mismatches (cs : list c17_case) : list nat := idx_filter (fun c => negb (agrees c)) cs 0%nat.
Definition spec_violations (cs : list c17_case) : list nat := idx_filter (fun c => negb (spec_ok c)) cs 0%nat.
Definition explain (c : c17_case) :=
  (o_crashed c, o_races c, filter (fun k => negb (if has_unacked c k then key_ok_weak c k else key_ok c k)) (all_keys c)).
