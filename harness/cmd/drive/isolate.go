package main

// Runs crash-prone work in worker sub-processes: `drive worker <name>` reads one JSON request per line
// on stdin and answers one JSON line on stdout. A worker that dies is recorded as a crash of the
// request it was serving and replaced.

import (
	"bufio"
	"encoding/json"
	"fmt"
	"io"
	"os"
	"os/exec"
	"strings"
	"sync"
	"time"
)

type isoResult struct {
	Out     json.RawMessage
	Crashed bool
	Stderr  string // tail of the dying worker's stderr (panic message)
	Timeout bool
}

type isoWorker struct {
	cmd    *exec.Cmd
	in     io.WriteCloser
	out    *bufio.Reader
	errBuf *tailBuf
}

type tailBuf struct {
	mu sync.Mutex
	b  []byte
}

func (t *tailBuf) Write(p []byte) (int, error) {
	t.mu.Lock()
	t.b = append(t.b, p...)
	if len(t.b) > 6000 {
		t.b = t.b[len(t.b)-6000:]
	}
	t.mu.Unlock()
	return len(p), nil
}
func (t *tailBuf) String() string { t.mu.Lock(); defer t.mu.Unlock(); return string(t.b) }

func startWorker(name string) (*isoWorker, error) {
	bin := os.Args[0]
	if b := os.Getenv("DRIVE_WORKER_BIN_" + name); b != "" {
		bin = b // e.g. a -race build for the workers that look for data races
	}
	cmd := exec.Command(bin, "worker", name)
	in, _ := cmd.StdinPipe()
	out, _ := cmd.StdoutPipe()
	tb := &tailBuf{}
	cmd.Stderr = tb
	if err := cmd.Start(); err != nil {
		return nil, err
	}
	return &isoWorker{cmd: cmd, in: in, out: bufio.NewReaderSize(out, 1<<20), errBuf: tb}, nil
}

func (w *isoWorker) kill() {
	w.in.Close()
	w.cmd.Process.Kill()
	w.cmd.Wait()
}

func runIsolated(name string, reqs []json.RawMessage, nworkers int, perReq time.Duration) []isoResult {
	res := make([]isoResult, len(reqs))
	var next int
	var mu sync.Mutex
	var wg sync.WaitGroup
	for k := 0; k < nworkers; k++ {
		wg.Add(1)
		go func() {
			defer wg.Done()
			var w *isoWorker
			defer func() {
				if w != nil {
					w.kill()
				}
			}()
			for {
				mu.Lock()
				i := next
				next++
				mu.Unlock()
				if i >= len(reqs) {
					return
				}
				if w == nil {
					var err error
					w, err = startWorker(name)
					if err != nil {
						res[i] = isoResult{Crashed: true, Stderr: "cannot start worker: " + err.Error()}
						continue
					}
				}
				line := append(append([]byte{}, reqs[i]...), '\n')
				if _, err := w.in.Write(line); err != nil {
					res[i] = isoResult{Crashed: true, Stderr: w.errBuf.String()}
					w.kill()
					w = nil
					continue
				}
				type rd struct {
					b   []byte
					err error
				}
				ch := make(chan rd, 1)
				go func(w *isoWorker) {
					for {
						b, err := w.out.ReadBytes('\n')
						if err != nil {
							ch <- rd{nil, err}
							return
						}
						if strings.HasPrefix(string(b), "RESULT ") {
							ch <- rd{b[7:], nil}
							return
						}
						// anything else on stdout (library chatter) is ignored
					}
				}(w)
				select {
				case r := <-ch:
					if r.err != nil {
						w.cmd.Wait()
						res[i] = isoResult{Crashed: true, Stderr: w.errBuf.String()}
						w = nil
					} else {
						res[i] = isoResult{Out: json.RawMessage(r.b)}
					}
				case <-time.After(perReq):
					res[i] = isoResult{Timeout: true, Stderr: w.errBuf.String()}
					w.kill()
					w = nil
				}
			}
		}()
	}
	wg.Wait()
	return res
}

// workerLoop is the child side
func workerLoop(handle func(req json.RawMessage) interface{}) {
	rd := bufio.NewReaderSize(os.Stdin, 1<<20)
	for {
		line, err := rd.ReadBytes('\n')
		if len(line) > 0 {
			out := handle(json.RawMessage(line))
			b, _ := json.Marshal(out)
			fmt.Fprintf(os.Stdout, "RESULT %s\n", b)
		}
		if err != nil {
			return
		}
	}
}

// rerunFailed: a worker that died or timed out may have been a victim of the machine (memory, descriptors,
// load) rather than of the request. Each such request is run once more, alone, with twice the time; only a
// request that fails again is reported as crashed / timed out.
func rerunFailed(name string, reqs []json.RawMessage, res []isoResult, perReq time.Duration) {
	for i := range res {
		if res[i].Crashed || res[i].Timeout {
			again := runIsolated(name, reqs[i:i+1], 1, 2*perReq)
			if len(again) == 1 && !again[0].Crashed && !again[0].Timeout {
				res[i] = again[0]
			}
		}
	}
}
