(* aggregate(): engine/core/processors.go aggregate.Process (property C19). *)
From Coq Require Import List ZArith QArith Qround String Bool NArith.
Import ListNotations.
From Grip Require Import Model.Json.
Local Close Scope Q_scope.
Local Open Scope nat_scope.
Local Open Scope list_scope.

(* value of the aggregated field in one row: None = nil (missing or null) *)
Definition aval := option jv.

Definition is_scalar (v : jv) : bool := match v with JStr _ | JNum _ | JBool _ => true | _ => false end.

(* ---------- term ---------- *)
Fixpoint bump (k : jv) (l : list (jv * nat)) : list (jv * nat) :=
  match l with
  | [] => [(k, 1)]
  | (k', c) :: r => if jeq k k' then (k', S c) :: r else (k', c) :: bump k r
  end.
Definition term_buckets (vals : list aval) : list (jv * nat) :=
  fold_left (fun acc v => match v with Some x => if is_scalar x then bump x acc else acc | None => acc end) vals [].

(* ---------- histogram ---------- *)
(* spf13/cast ToFloat64E on JSON kinds *)
Definition cast_float (v : jv) : option Q :=
  match v with JNum q => Some q | JStr s => parse_float s | JBool b => Some (if b then 1%Q else 0%Q) | _ => None end.
Definition numeric_vals (vals : list aval) : list Q :=
  flat_map (fun v => match v with Some x => match cast_float x with Some q => [q] | None => [] end | None => [] end) vals.

Definition bidx (i : Q) (v : Q) : Z := Qfloor (v / i)%Q.
Definition qmin (a b : Q) : Q := if Qle_bool a b then a else b.
Definition qmax (a b : Q) : Q := if Qle_bool a b then b else a.
Definition zrange (a b : Z) : list Z := map (fun k => (a + Z.of_nat k)%Z) (seq 0 (Z.to_nat (b - a + 1))).
Definition count_idx (i : Q) (j : Z) (vs : list Q) : nat := List.length (filter (fun v => Z.eqb (bidx i v) j) vs).
(* buckets floor(min/i)*i, +i, ... while <= max; each counts the values in [bucket, bucket+i) *)
Definition histogram (i : Q) (vals : list aval) : list (Q * nat) :=
  match numeric_vals vals with
  | [] => []
  | v :: r =>
      let lo := fold_left qmin r v in
      let hi := fold_left qmax r v in
      map (fun j => ((inject_Z j * i)%Q, count_idx i j (v :: r))) (zrange (bidx i lo) (bidx i hi))
  end.

(* ---------- field / type / count ---------- *)
Fixpoint bump_s (k : string) (l : list (string * nat)) : list (string * nat) :=
  match l with
  | [] => [(k, 1)]
  | (k', c) :: r => if String.eqb k k' then (k', S c) :: r else (k', c) :: bump_s k r
  end.
Definition field_buckets (vals : list aval) : list (string * nat) :=
  fold_left (fun acc v => match v with Some (JMap m) => fold_left (fun a kv => bump_s (fst kv) a) m acc | _ => acc end) vals [].
Definition type_name (v : aval) : string :=
  match v with Some (JStr _) => "STRING" | Some (JNum _) => "NUMERIC" | Some (JBool _) => "BOOL" | _ => "UNKNOWN" end.
Definition type_buckets (vals : list aval) : list (string * nat) :=
  fold_left (fun acc v => bump_s (type_name v) acc) vals [].
