(* Concurrent clients (property C17).
   Part 1: the lock discipline. Threads (request handlers, background goroutines) are sequences of lock, unlock
   and access events over reader/writer mutexes; [g x] is the mutex guarding shared variable x.
   Part 2: acknowledged edits. Store operations are atomic (one store transaction each); any interleaving of
   the clients' sessions leaves, under every key, the last write some client made to it. *)
From Coq Require Import List Arith Bool Lia.
Import ListNotations.

(* ================= Part 1 ================= *)
Inductive event :=
| Acq (m : nat) (excl : bool)      (* Lock / RLock *)
| Rel (m : nat)                    (* Unlock / RUnlock *)
| Acc (x : nat) (write : bool).    (* read or write of a shared variable *)

Section Locks.
  Variable g : nat -> nat.          (* variable -> its guarding mutex *)

  Definition held := list (nat * bool).          (* mutexes a thread holds, with the mode *)
  Definition holds (h : held) (m : nat) : option bool :=
    match find (fun p => fst p =? m) h with Some p => Some (snd p) | None => None end.
  Definition drop (h : held) (m : nat) : held := filter (fun p => negb (fst p =? m)) h.

  (* the static check: every access happens with the guarding mutex held, writes with it held exclusively;
     no mutex is taken twice or released without being held *)
  Fixpoint disciplined (h : held) (p : list event) : bool :=
    match p with
    | [] => true
    | Acq m e :: r => match holds h m with Some _ => false | None => disciplined ((m, e) :: h) r end
    | Rel m :: r => match holds h m with Some _ => disciplined (drop h m) r | None => false end
    | Acc x w :: r => match holds h (g x) with
                      | Some e => (e || negb w) && disciplined h r
                      | None => false
                      end
    end.

  (* the dynamic system *)
  Record thread := { t_prog : list event; t_held : held }.
  Record lockst := { writer : option nat; readers : list nat }.   (* per mutex *)
  Definition locks := nat -> lockst.
  Definition upd (L : locks) (m : nat) (v : lockst) : locks := fun k => if k =? m then v else L k.
  Fixpoint remove1 (t : nat) (l : list nat) : list nat :=
    match l with [] => [] | x :: r => if x =? t then r else x :: remove1 t r end.

  Definition sys := (list thread * locks)%type.
  Fixpoint set_nth (l : list thread) (i : nat) (v : thread) : list thread :=
    match l, i with [], _ => [] | _ :: r, 0 => v :: r | x :: r, S j => x :: set_nth r j v end.

  Inductive sstep : sys -> sys -> Prop :=
  | s_acq_x ts L i p h m : nth_error ts i = Some {| t_prog := Acq m true :: p; t_held := h |} ->
      writer (L m) = None -> readers (L m) = [] ->
      sstep (ts, L) (set_nth ts i {| t_prog := p; t_held := (m, true) :: h |}, upd L m {| writer := Some i; readers := [] |})
  | s_acq_r ts L i p h m : nth_error ts i = Some {| t_prog := Acq m false :: p; t_held := h |} ->
      writer (L m) = None ->
      sstep (ts, L) (set_nth ts i {| t_prog := p; t_held := (m, false) :: h |}, upd L m {| writer := None; readers := i :: readers (L m) |})
  | s_rel ts L i p h m e : nth_error ts i = Some {| t_prog := Rel m :: p; t_held := h |} -> holds h m = Some e ->
      sstep (ts, L) (set_nth ts i {| t_prog := p; t_held := drop h m |},
                     upd L m (if e then {| writer := None; readers := readers (L m) |}
                              else {| writer := writer (L m); readers := remove1 i (readers (L m)) |}))
  | s_acc ts L i p h x w : nth_error ts i = Some {| t_prog := Acc x w :: p; t_held := h |} ->
      sstep (ts, L) (set_nth ts i {| t_prog := p; t_held := h |}, L).

  Inductive sreach (s0 : sys) : sys -> Prop :=
  | sr_refl : sreach s0 s0
  | sr_step s s' : sreach s0 s -> sstep s s' -> sreach s0 s'.

  Definition init (progs : list (list event)) : sys :=
    (map (fun p => {| t_prog := p; t_held := [] |}) progs, fun _ => {| writer := None; readers := [] |}).

  (* a data race: two different threads are both about to touch the same variable, one of them writing *)
  Definition race (s : sys) : Prop :=
    exists i j x w1 w2 p1 h1 p2 h2, i <> j /\
      nth_error (fst s) i = Some {| t_prog := Acc x w1 :: p1; t_held := h1 |} /\
      nth_error (fst s) j = Some {| t_prog := Acc x w2 :: p2; t_held := h2 |} /\
      (w1 = true \/ w2 = true).
End Locks.

(* ================= Part 2 ================= *)
Section Edits.
  Variable K V : Type.
  Variable keq : K -> K -> bool.
  Hypothesis keq_spec : forall a b, keq a b = true <-> a = b.

  (* a write: Some v = put, None = delete *)
  Definition wop := (K * option V)%type.
  Definition store := K -> option V.
  Definition apply1 (s : store) (o : wop) : store := fun k => if keq k (fst o) then snd o else s k.
  Definition apply (s : store) (l : list wop) : store := fold_left apply1 l s.

  (* l is an interleaving of the sessions that keeps each session's own order *)
  Inductive interleaving : list (list wop) -> list wop -> Prop :=
  | il_nil ss : Forall (fun s => s = []) ss -> interleaving ss []
  | il_cons ss1 o s ss2 l : interleaving (ss1 ++ s :: ss2) l -> interleaving (ss1 ++ (o :: s) :: ss2) (o :: l).

  Fixpoint last_write (k : K) (l : list wop) : option (option V) :=
    match l with
    | [] => None
    | o :: r => match last_write k r with Some v => Some v | None => if keq k (fst o) then Some (snd o) else None end
    end.
End Edits.
Arguments apply {K V}. Arguments apply1 {K V}. Arguments interleaving {K V}. Arguments last_write {K V}.
