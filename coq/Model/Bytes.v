(* Byte strings: a byte is an N (< 256 by convention), a byte string is a list of them.
   Lexicographic order = Go's bytes.Compare. *)
From Coq Require Import List NArith Bool String Ascii.
Import ListNotations.

Definition bytes := list N.

Fixpoint bcmp (a b : bytes) : comparison :=
  match a, b with
  | [], [] => Eq
  | [], _ :: _ => Lt
  | _ :: _, [] => Gt
  | x :: a', y :: b' => match N.compare x y with Eq => bcmp a' b' | c => c end
  end.

Definition beqb (a b : bytes) : bool := match bcmp a b with Eq => true | _ => false end.
Definition bltb (a b : bytes) : bool := match bcmp a b with Lt => true | _ => false end.
Definition bleb (a b : bytes) : bool := match bcmp a b with Gt => false | _ => true end.

Fixpoint is_prefix (p k : bytes) : bool :=
  match p, k with
  | [], _ => true
  | _ :: _, [] => false
  | x :: p', y :: k' => N.eqb x y && is_prefix p' k'
  end.

(* conversion used by the harness printer for non-printable strings *)
Fixpoint bs (l : list N) : string :=
  match l with [] => EmptyString | x :: r => String (ascii_of_N x) (bs r) end.
Fixpoint bytes_of_string (s : string) : bytes :=
  match s with EmptyString => [] | String c r => N_of_ascii c :: bytes_of_string r end.
