(* Model of grip's internal stream combinators (property C13).
   Definitions only; proofs live in Proofs/StreamsProofs.v.

   Anchors: jobstorage/serializer.go (MarshalStream / UnmarshalStream: identical structure),
            gdbi/processor.go (LookupBatcher, DualProcessor),
            gripper/channel_mux.go (ChannelMux), engine/queue/queue.go. *)
From Coq Require Import List Arith Bool Lia.
Import ListNotations.

(* ---------- list helpers ---------- *)
Fixpoint upd {X} (i : nat) (g : X -> X) (l : list X) : list X :=
  match l, i with
  | [], _ => []
  | x :: r, 0 => g x :: r
  | x :: r, S j => x :: upd j g r
  end.

Definition snoc {X} (x : X) (q : list X) : list X := q ++ [x].

(* ---------- 1. worker pool: round-robin distribute / round-robin merge ---------- *)

(* "n++; if n >= nworkers { n = 0 }" *)
Definition next_idx (n i : nat) : nat := if S i <? n then S i else 0.

(* functional distributor: item k goes to the worker the feeder's counter points to *)
Fixpoint distribute_from {A} (n i : nat) (xs : list A) (qs : list (list A)) : list (list A) :=
  match xs with
  | [] => qs
  | x :: xs' => distribute_from n (next_idx n i) xs' (upd i (snoc x) qs)
  end.
Definition distribute {A} (n : nat) (xs : list A) : list (list A) :=
  distribute_from n 0 xs (repeat [] n).

(* functional merger, written as the code's loop:
     for found := true; found; { found = false
        for i := 0; i < nworkers; i++ { if c, ok := <-fromWorkers[i]; ok { out <- c; found = true } } }
   run on *complete* worker streams (a stream that is empty is closed). *)
Fixpoint merge_from {B} (fuel n m : nat) (found : bool) (V : list (list B)) : list B :=
  match fuel with
  | 0 => []
  | S k =>
    if m <? n then
      match nth m V [] with
      | [] => merge_from k n (S m) found V
      | y :: _ => y :: merge_from k n (S m) true (upd m (@tl B) V)
      end
    else if found then merge_from k n 0 false V else []
  end.

Definition merge_fuel {B} (n : nat) (V : list (list B)) : nat :=
  length (concat V) * (n + 2) + 2 * n + 4.

Definition merge_rr {B} (n : nat) (V : list (list B)) : list B :=
  merge_from (merge_fuel n V) n 0 false V.

(* the whole pool as a function: what the harness evaluates *)
Definition rr_pool {A B} (f : A -> B) (n : nat) (xs : list A) : list B :=
  merge_rr n (map (map f) (distribute n xs)).

(* small-step model: feeder, n workers, merger; any enabled process may move.
   cap = capacity of the per-worker channels (10 in the code), any cap >= 1. *)
Section Pool.
  Context {A B : Type}.
  Variable f : A -> B.
  Variable n : nat.      (* number of workers *)
  Variable cap : nat.    (* per-worker channel capacity *)

  Record wk := { tw : list A; fw : list B; wcl : bool }.
  Definition wk_push (x : A) (w : wk) := {| tw := tw w ++ [x]; fw := fw w; wcl := wcl w |}.
  Definition wk_work (w : wk) :=
    match tw w with
    | [] => w
    | x :: q => {| tw := q; fw := fw w ++ [f x]; wcl := wcl w |}
    end.
  Definition wk_close (w : wk) := {| tw := tw w; fw := fw w; wcl := true |}.
  Definition wk_pop (w : wk) := {| tw := tw w; fw := tl (fw w); wcl := wcl w |}.

  Record pst := {
    p_inp : list A;        (* items not yet read from the input pipe *)
    p_done_in : list A;    (* items already handed to a worker (ghost) *)
    p_incl : bool;         (* feeder has closed every toWorkers channel *)
    p_next : nat;          (* feeder's counter *)
    p_ws : list wk;
    p_m : nat;             (* merger's loop index *)
    p_found : bool;
    p_out : list B;        (* items delivered on the output channel so far *)
    p_closed : bool        (* output channel closed *)
  }.

  Definition pinit (xs : list A) : pst :=
    {| p_inp := xs; p_done_in := []; p_incl := false; p_next := 0;
       p_ws := repeat {| tw := []; fw := []; wcl := false |} n;
       p_m := 0; p_found := false; p_out := []; p_closed := false |}.

  Definition wdef : wk := {| tw := []; fw := []; wcl := true |}.

  Inductive pstep : pst -> pst -> Prop :=
  | P_feed : forall s x xs,
      p_inp s = x :: xs -> p_incl s = false ->
      length (tw (nth (p_next s) (p_ws s) wdef)) < cap ->
      pstep s {| p_inp := xs; p_done_in := p_done_in s ++ [x]; p_incl := false;
                 p_next := next_idx n (p_next s);
                 p_ws := upd (p_next s) (wk_push x) (p_ws s);
                 p_m := p_m s; p_found := p_found s; p_out := p_out s; p_closed := p_closed s |}
  | P_feed_close : forall s,
      p_inp s = [] -> p_incl s = false ->
      pstep s {| p_inp := []; p_done_in := p_done_in s; p_incl := true; p_next := p_next s;
                 p_ws := p_ws s; p_m := p_m s; p_found := p_found s; p_out := p_out s;
                 p_closed := p_closed s |}
  | P_work : forall s i w,
      nth_error (p_ws s) i = Some w -> tw w <> [] -> length (fw w) < cap ->
      pstep s {| p_inp := p_inp s; p_done_in := p_done_in s; p_incl := p_incl s; p_next := p_next s;
                 p_ws := upd i wk_work (p_ws s);
                 p_m := p_m s; p_found := p_found s; p_out := p_out s; p_closed := p_closed s |}
  | P_wclose : forall s i w,
      nth_error (p_ws s) i = Some w -> tw w = [] -> p_incl s = true -> wcl w = false ->
      pstep s {| p_inp := p_inp s; p_done_in := p_done_in s; p_incl := p_incl s; p_next := p_next s;
                 p_ws := upd i wk_close (p_ws s);
                 p_m := p_m s; p_found := p_found s; p_out := p_out s; p_closed := p_closed s |}
  | P_take : forall s w y q,
      p_closed s = false -> p_m s < n ->
      nth_error (p_ws s) (p_m s) = Some w -> fw w = y :: q ->
      pstep s {| p_inp := p_inp s; p_done_in := p_done_in s; p_incl := p_incl s; p_next := p_next s;
                 p_ws := upd (p_m s) wk_pop (p_ws s);
                 p_m := S (p_m s); p_found := true; p_out := p_out s ++ [y]; p_closed := false |}
  | P_skip : forall s w,
      p_closed s = false -> p_m s < n ->
      nth_error (p_ws s) (p_m s) = Some w -> fw w = [] -> wcl w = true ->
      pstep s {| p_inp := p_inp s; p_done_in := p_done_in s; p_incl := p_incl s; p_next := p_next s;
                 p_ws := p_ws s;
                 p_m := S (p_m s); p_found := p_found s; p_out := p_out s; p_closed := false |}
  | P_round : forall s,
      p_closed s = false -> p_m s = n -> p_found s = true ->
      pstep s {| p_inp := p_inp s; p_done_in := p_done_in s; p_incl := p_incl s; p_next := p_next s;
                 p_ws := p_ws s; p_m := 0; p_found := false; p_out := p_out s; p_closed := false |}
  | P_finish : forall s,
      p_closed s = false -> p_m s = n -> p_found s = false ->
      pstep s {| p_inp := p_inp s; p_done_in := p_done_in s; p_incl := p_incl s; p_next := p_next s;
                 p_ws := p_ws s; p_m := p_m s; p_found := false; p_out := p_out s; p_closed := true |}.

  Inductive preach (xs : list A) : pst -> Prop :=
  | PR_init : preach xs (pinit xs)
  | PR_step : forall s s', preach xs s -> pstep s s' -> preach xs s'.
End Pool.

(* ---------- 2. LookupBatcher: size / timeout batching ---------- *)

(* functional: the batches produced when no timeout fires *)
Fixpoint batches_aux {A} (k : nat) (cur : list A) (xs : list A) : list (list A) :=
  match xs with
  | [] => match cur with [] => [] | _ => [cur] end
  | x :: xs' =>
    let cur' := cur ++ [x] in
    if k <=? length cur' then cur' :: batches_aux k [] xs' else batches_aux k cur' xs'
  end.
Definition batches {A} (k : nat) (xs : list A) := batches_aux k [] xs.

Section Batcher.
  Context {A : Type}.
  Variable k : nat.   (* batchSize *)

  Record bst := { b_inp : list A; b_cur : list A; b_out : list (list A); b_open : bool; b_closed : bool }.
  Definition binit (xs : list A) := {| b_inp := xs; b_cur := []; b_out := []; b_open := true; b_closed := false |}.

  (* after each select the code flushes when len(o) > 0 && (len(o) >= batchSize || timed out);
     "timed out" is a nondeterministic boolean here: this is the latency quantifier. *)
  Definition flush_if (timeout : bool) (s : bst) : bst :=
    match b_cur s with
    | [] => s
    | _ => if (k <=? length (b_cur s)) || timeout
           then {| b_inp := b_inp s; b_cur := []; b_out := b_out s ++ [b_cur s]; b_open := b_open s; b_closed := b_closed s |}
           else s
    end.

  Inductive bstep : bst -> bst -> Prop :=
  | B_recv : forall s x xs t, b_open s = true -> b_inp s = x :: xs ->
      bstep s (flush_if t {| b_inp := xs; b_cur := b_cur s ++ [x]; b_out := b_out s; b_open := true; b_closed := false |})
  | B_idle : forall s t, b_open s = true ->        (* default branch: nothing ready, sleep *)
      bstep s (flush_if t s)
  | B_eof : forall s t, b_open s = true -> b_inp s = [] ->
      bstep s (flush_if t {| b_inp := []; b_cur := b_cur s; b_out := b_out s; b_open := false; b_closed := false |})
  | B_final : forall s, b_open s = false -> b_closed s = false ->
      bstep s {| b_inp := b_inp s; b_cur := [];
                 b_out := match b_cur s with [] => b_out s | c => b_out s ++ [c] end;
                 b_open := false; b_closed := true |}.

  Inductive breach (xs : list A) : bst -> Prop :=
  | BR_init : breach xs (binit xs)
  | BR_step : forall s s', breach xs s -> bstep s s' -> breach xs s'.
End Batcher.

(* ---------- 3. ChannelMux: per-pipeline FIFO stages merged in request order ---------- *)
Section Mux.
  Context {A B : Type}.
  Variable g : nat -> A -> B.       (* pipeline number -> its 1:1 function *)

  Record pl := { pl_in : list A; pl_out : list B }.
  Record mst := {
    m_puts : list (nat * A);    (* Put calls still to be issued by the client, in order *)
    m_done : list (nat * A);    (* Put calls issued (ghost) *)
    m_pls : list pl;
    m_order : list nat;         (* messageOrder channel *)
    m_res : list B;             (* outChannel deliveries *)
    m_clreq : bool;             (* Close() called *)
    m_closed : bool             (* outChannel closed *)
  }.
  Definition minit (np : nat) (puts : list (nat * A)) :=
    {| m_puts := puts; m_done := []; m_pls := repeat {| pl_in := []; pl_out := [] |} np;
       m_order := []; m_res := []; m_clreq := false; m_closed := false |}.

  Definition pl_push x (p : pl) := {| pl_in := pl_in p ++ [x]; pl_out := pl_out p |}.
  Definition pl_work (i : nat) (p : pl) :=
    match pl_in p with [] => p | x :: q => {| pl_in := q; pl_out := pl_out p ++ [g i x] |} end.
  Definition pl_pop (p : pl) := {| pl_in := pl_in p; pl_out := tl (pl_out p) |}.

  Inductive mstep : mst -> mst -> Prop :=
  | M_put : forall s i x rest, m_puts s = (i, x) :: rest -> i < length (m_pls s) ->
      mstep s {| m_puts := rest; m_done := m_done s ++ [(i, x)]; m_pls := upd i (pl_push x) (m_pls s);
                 m_order := m_order s ++ [i]; m_res := m_res s; m_clreq := false; m_closed := m_closed s |}
  | M_work : forall s i p, nth_error (m_pls s) i = Some p -> pl_in p <> [] ->
      mstep s {| m_puts := m_puts s; m_done := m_done s; m_pls := upd i (pl_work i) (m_pls s);
                 m_order := m_order s; m_res := m_res s; m_clreq := m_clreq s; m_closed := m_closed s |}
  | M_deliver : forall s i rest p y q, m_order s = i :: rest ->
      nth_error (m_pls s) i = Some p -> pl_out p = y :: q ->
      mstep s {| m_puts := m_puts s; m_done := m_done s; m_pls := upd i pl_pop (m_pls s);
                 m_order := rest; m_res := m_res s ++ [y]; m_clreq := m_clreq s; m_closed := m_closed s |}
  | M_close : forall s, m_puts s = [] -> m_clreq s = false ->
      mstep s {| m_puts := []; m_done := m_done s; m_pls := m_pls s; m_order := m_order s;
                 m_res := m_res s; m_clreq := true; m_closed := m_closed s |}
  | M_finish : forall s, m_clreq s = true -> m_order s = [] -> m_closed s = false ->
      mstep s {| m_puts := m_puts s; m_done := m_done s; m_pls := m_pls s; m_order := [];
                 m_res := m_res s; m_clreq := true; m_closed := true |}.

  Inductive mreach (np : nat) (puts : list (nat * A)) : mst -> Prop :=
  | MR_init : mreach np puts (minit np puts)
  | MR_step : forall s s', mreach np puts s -> mstep s s' -> mreach np puts s'.
End Mux.

(* ---------- 4. FIFO chains: jump queue (input chan -> slice -> output chan) and
                 DualProcessor (loader with fan-out, then deserializer) ---------- *)
Section Chain.
  Context {A B C : Type}.
  Variable load : A -> list B.     (* stage 1: one request -> its retrieved items, in order *)
  Variable deser : B -> C.         (* stage 2: 1:1 *)

  Record cst := { c_inp : list A; c_mid : list B; c_res : list C; c_midclosed : bool; c_closed : bool }.
  Definition cinit xs := {| c_inp := xs; c_mid := []; c_res := []; c_midclosed := false; c_closed := false |}.

  Inductive cstep : cst -> cst -> Prop :=
  | C_load : forall s x xs, c_inp s = x :: xs ->
      cstep s {| c_inp := xs; c_mid := c_mid s ++ load x; c_res := c_res s; c_midclosed := false; c_closed := c_closed s |}
  | C_eof : forall s, c_inp s = [] -> c_midclosed s = false ->
      cstep s {| c_inp := []; c_mid := c_mid s; c_res := c_res s; c_midclosed := true; c_closed := c_closed s |}
  | C_deser : forall s y q, c_mid s = y :: q ->
      cstep s {| c_inp := c_inp s; c_mid := q; c_res := c_res s ++ [deser y]; c_midclosed := c_midclosed s; c_closed := c_closed s |}
  | C_finish : forall s, c_mid s = [] -> c_midclosed s = true -> c_closed s = false ->
      cstep s {| c_inp := c_inp s; c_mid := []; c_res := c_res s; c_midclosed := true; c_closed := true |}.

  Inductive creach (xs : list A) : cst -> Prop :=
  | CR_init : creach xs (cinit xs)
  | CR_step : forall s s', creach xs s -> cstep s s' -> creach xs s'.

  Definition chain_fun (xs : list A) : list C := map deser (flat_map load xs).
End Chain.
