(* C12  mark/jump loops are exact and terminate under every schedule.
   Model/Loop.v: the closing-phase signal protocol of engine/logic/jump.go (JumpMark.Process, Jump.Process)
   with the unbounded queue of engine/queue/queue.go, one jump per mark; the loop body is any composition of
   order-preserving steps (body : T -> list T), the jump condition any predicate, emit on or off. The mark's
   decisions on "nothing arrived" are enabled at ALL times (its polls race with the queue goroutines). *)
From Coq Require Import List Arith Bool Permutation.
Import ListNotations.
From Grip Require Import Model.Loop Proofs.LoopProofs.

Section C12.
  Variable T : Type.
  Variable body : T -> list T.
  Variable cond : T -> bool.
  Variable emit : bool.
  Variable rank : T -> nat.
  (* counters bound the iteration depth *)
  Hypothesis bounded : forall x y, In y (body x) -> cond y = true -> rank y < rank x.

  (* Under EVERY interleaving of the mark, body/jump and queue: when the mark closes its output nothing is
     left anywhere in the loop (no traveler lost) and the rows emitted are exactly those of the iterative
     definition, each once (no traveler duplicated) *)
  Theorem C12_exact : forall input s, lreach body cond emit input s -> l_phase s = PClosed ->
    l_Q s = [] /\ l_chA s = [] /\ l_inp s = [] /\ Permutation (l_out s) (loop_spec body cond emit rank input).
  Proof. exact (loop_exact T body cond emit rank bounded). Qed.

  (* until then some goroutine can always move ... *)
  Theorem C12_progress : forall input s, lreach body cond emit input s -> l_phase s <> PClosed ->
    exists s', lstep body cond emit s s'.
  Proof. exact (loop_progress T body cond emit rank bounded). Qed.

  (* ... and every move uses up work: no schedule takes more than measure(start) steps *)
  Theorem C12_bounded : forall input n s, lrun_n T body cond emit input n s ->
    n + measure T body cond rank s <= measure T body cond rank (lstart input).
  Proof. exact (loop_bounded T body cond emit rank bounded). Qed.
End C12.
Print Assumptions C12_exact.
Print Assumptions C12_progress.
Print Assumptions C12_bounded.

(* non-vacuity: a counter-bounded loop over a small graph, run by the executable system under two different
   schedulers, closes with the rows of the iterative definition *)
Definition ex_succ (v : nat) : list nat := match v with 0 => [1; 2] | 1 => [2] | 2 => [0] | _ => [] end.
Definition ex_body (t : nat * nat) : list (nat * nat) := map (fun w => (w, S (snd t))) (ex_succ (fst t)).
Definition ex_cond (t : nat * nat) : bool := snd t <? 3.
Example C12_bounded_instance : forall x y, In y (ex_body x) -> ex_cond y = true -> 3 - snd y < 3 - snd x.
Proof.
  intros [v c] [w d] Hin Hc. unfold ex_body in Hin. apply in_map_iff in Hin as [u [E _]]. inversion E; subst.
  unfold ex_cond in Hc. cbn [snd] in *. apply Nat.ltb_lt in Hc. Lia.lia.
Qed.
Example C12_run_instance :
  let inp := [(0, 0); (1, 0); (2, 0)] in
  let spec := loop_spec ex_body ex_cond true (fun t => 3 - snd t) inp in
  let s1 := lrun ex_body ex_cond true (fun i => i mod 4) 2000 0 (lstart inp) in
  let s2 := lrun ex_body ex_cond true (fun i => (i * 7 + i / 3) mod 4) 2000 0 (lstart inp) in
  l_phase s1 = PClosed /\ l_phase s2 = PClosed /\ length (l_out s1) = length spec /\ length (l_out s2) = length spec /\ 0 < length spec.
Proof. vm_compute. repeat split. repeat constructor. Qed.
