(* Proofs for Model/Streams.v (property C13). *)
From Coq Require Import List Arith Bool Lia.
Import ListNotations.
From Grip Require Import Model.Streams.

(* ---------- upd lemmas ---------- *)
Lemma upd_length {X} i (g : X -> X) l : length (upd i g l) = length l.
Proof. revert i; induction l as [|x r IH]; intros [|i]; simpl; auto. Qed.

Lemma nth_error_upd_eq {X} i (g : X -> X) l x :
  nth_error l i = Some x -> nth_error (upd i g l) i = Some (g x).
Proof. revert i; induction l as [|y r IH]; intros [|i]; simpl; intros H; try discriminate.
  - now inversion H.
  - now apply IH. Qed.

Lemma nth_error_upd_neq {X} i j (g : X -> X) l :
  i <> j -> nth_error (upd i g l) j = nth_error l j.
Proof. revert i j; induction l as [|y r IH]; intros [|i] [|j]; simpl; intros H; auto; try lia.
  all: try (apply IH; lia). Qed.

Lemma upd_ge {X} i (g : X -> X) l : length l <= i -> upd i g l = l.
Proof. revert i; induction l as [|y r IH]; intros [|i]; simpl; intros H; auto; try lia.
  f_equal; apply IH; lia. Qed.

Lemma map_upd {X Y} (h : X -> Y) i (g : X -> X) (g' : Y -> Y) l :
  (forall x, nth_error l i = Some x -> h (g x) = g' (h x)) ->
  map h (upd i g l) = upd i g' (map h l).
Proof. revert i; induction l as [|y r IH]; intros [|i]; simpl; intros H; auto.
  - f_equal; apply H; reflexivity.
  - f_equal; apply IH; exact H. Qed.

Lemma upd_id_on {X} i (g : X -> X) l :
  (forall x, nth_error l i = Some x -> g x = x) -> upd i g l = l.
Proof. revert i; induction l as [|y r IH]; intros [|i]; simpl; intros H; auto.
  - f_equal; apply H; reflexivity.
  - f_equal; apply IH; exact H. Qed.

Lemma upd_upd_same {X} i (g h : X -> X) l : upd i g (upd i h l) = upd i (fun x => g (h x)) l.
Proof. revert i; induction l as [|y r IH]; intros [|i]; simpl; auto. f_equal; apply IH. Qed.

Lemma upd_upd_comm {X} i j (g h : X -> X) l : i <> j -> upd i g (upd j h l) = upd j h (upd i g l).
Proof. revert i j; induction l as [|y r IH]; intros [|i] [|j]; simpl; intros H; auto; try lia.
  f_equal; apply IH; lia. Qed.

Lemma upd_ext {X} i (g h : X -> X) l :
  (forall x, nth_error l i = Some x -> g x = h x) -> upd i g l = upd i h l.
Proof. revert i; induction l as [|y r IH]; intros [|i]; simpl; intros H; auto.
  - f_equal; apply H; reflexivity.
  - f_equal; apply IH; exact H. Qed.

Lemma nth_nth_error {X} (l : list X) i d x : nth_error l i = Some x -> nth i l d = x.
Proof. revert i; induction l as [|y r IH]; intros [|i]; simpl; intros H; try discriminate.
  - now inversion H.
  - now apply IH. Qed.

Lemma nth_error_repeat {X} (x : X) n i : i < n -> nth_error (repeat x n) i = Some x.
Proof. revert i; induction n as [|n IH]; intros [|i] H; simpl; try lia; auto. apply IH; lia. Qed.

(* ---------- strict round-robin reading ---------- *)
Section RR.
  Context {B : Type}.
  Variable n : nat.
  Hypothesis npos : 0 < n.

  Definition all_empty (V : list (list B)) := Forall (fun q => q = []) V.

  Inductive RR : nat -> list (list B) -> list B -> Prop :=
  | RR_nil : forall m V, all_empty V -> RR m V []
  | RR_take : forall m V y q ys, m < n -> nth_error V m = Some (y :: q) ->
      RR (next_idx n m) (upd m (@tl B) V) ys -> RR m V (y :: ys).

  Fixpoint adv (m k : nat) : nat := match k with 0 => m | S k' => adv (next_idx n m) k' end.

  Lemma adv_snoc m k : adv m (S k) = next_idx n (adv m k).
  Proof. revert m; induction k as [|k IH]; intros m; simpl; auto. rewrite <- IH. reflexivity. Qed.

  Lemma next_idx_lt m : next_idx n m < n.
  Proof. unfold next_idx; destruct (S m <? n) eqn:E; [apply Nat.ltb_lt in E|]; lia. Qed.

  Lemma adv_lt m k : m < n -> adv m k < n.
  Proof. revert m; induction k as [|k IH]; intros m Hm; simpl; auto. apply IH. apply next_idx_lt. Qed.

  Lemma all_empty_upd_tl m V : all_empty V -> all_empty (upd m (@tl B) V).
  Proof. unfold all_empty; revert m; induction V as [|q r IH]; intros [|m] H; simpl; auto;
    inversion H; subst; constructor; auto. Qed.

  Lemma all_empty_nth V m q : all_empty V -> nth_error V m = Some q -> q = [].
  Proof. unfold all_empty; rewrite Forall_forall; intros H E; apply H; eapply nth_error_In; eauto. Qed.

  (* the feeder appends item x to the stream its counter points to *)
  Lemma RR_snoc m V ys x w :
    RR m V ys -> length V = n -> m < n -> w = adv m (length ys) ->
    RR m (upd w (snoc x) V) (ys ++ [x]).
  Proof.
    intros H; revert w; induction H as [m V He | m V y q ys Hm Hn H IH]; intros w HL Hmn Hw; simpl in *.
    - subst w. assert (exists q, nth_error V m = Some q) as [q Hq].
      { destruct (nth_error V m) eqn:E; eauto. apply nth_error_None in E; lia. }
      pose proof (all_empty_nth _ _ _ He Hq); subst q.
      eapply RR_take; eauto.
      + erewrite nth_error_upd_eq by eauto. reflexivity.
      + apply RR_nil. rewrite upd_upd_same. simpl.
        rewrite upd_id_on; auto. intros x0 Hx0. rewrite Hq in Hx0; now inversion Hx0.
    - destruct (Nat.eq_dec w m) as [->|Hne].
      + eapply RR_take with (q := q ++ [x]); eauto.
        * erewrite nth_error_upd_eq by eauto. reflexivity.
        * rewrite upd_upd_same.
          assert (upd m (fun x0 => tl (snoc x x0)) V = upd m (snoc x) (upd m (@tl B) V)) as ->.
          { rewrite upd_upd_same. apply upd_ext. intros x0 Hx0. rewrite Hn in Hx0; inversion Hx0; subst. reflexivity. }
          apply IH; auto. now rewrite upd_length. apply next_idx_lt.
      + eapply RR_take with (q := q); eauto.
        * rewrite nth_error_upd_neq by auto. exact Hn.
        * rewrite upd_upd_comm by auto. apply IH; auto. now rewrite upd_length. apply next_idx_lt.
  Qed.

  Lemma RR_length_V m V ys : RR m V ys -> length (concat V) = length ys.
  Proof.
    induction 1 as [m V He | m V y q ys Hm Hn H IH].
    - unfold all_empty in He. induction V as [|a r IHr]; simpl; auto. inversion He; subst; simpl; auto.
    - simpl. rewrite <- IH. clear - Hn. revert m Hn; induction V as [|a r IHr]; intros [|m] Hn; simpl in *; try discriminate.
      + inversion Hn; subst; simpl. reflexivity.
      + rewrite !app_length. rewrite (IHr _ Hn). lia.
  Qed.

  (* the code's merge loop reads an RR-shaped family as its reading *)
  Definition pos (m : nat) := if m <? n then m else 0.

  Lemma merge_from_RR fuel : forall m found V ys,
    RR (pos m) V ys -> m <= n -> length V = n ->
    (found = false -> 0 < m -> ys = []) ->
    length ys * (n + 2) + (if found then n + 1 else 0) + (n - m) + 1 <= fuel ->
    merge_from fuel n m found V = ys.
  Proof.
    induction fuel as [|k IH]; intros m found V ys HR Hm HL Hf Hfu; [lia|].
    simpl. destruct (m <? n) eqn:Emn.
    - apply Nat.ltb_lt in Emn. unfold pos in HR. assert (m <? n = true) as E' by now apply Nat.ltb_lt. rewrite E' in HR.
      inversion HR as [m0 V0 He | m0 V0 y q ys' Hm0 Hn0 HR']; subst.
      + assert (nth m V [] = []) as ->.
        { destruct (nth_error V m) eqn:E. rewrite (nth_nth_error _ _ _ _ E). eapply all_empty_nth; eauto.
          apply nth_error_None in E; lia. }
        apply IH; auto; try lia; try (apply RR_nil; now auto); try (simpl in *; destruct found; lia).
      + rewrite (nth_nth_error _ _ _ _ Hn0).
        f_equal. apply IH; auto; try lia; try (now rewrite upd_length); try (intros; discriminate);
          try (simpl in Hfu; simpl; destruct found; lia).
        all: try (unfold pos; unfold next_idx in HR'; destruct (S m <? n); now auto).
    - apply Nat.ltb_ge in Emn. assert (m = n) by lia; subst m.
      destruct found.
      + apply IH; auto; try lia. unfold pos in *. rewrite Nat.ltb_irrefl in HR.
        assert (0 <? n = true) as -> by now apply Nat.ltb_lt. exact HR.
      + symmetry; apply Hf; auto.
  Qed.
End RR.

(* ---------- functional theorem: round-robin merge of round-robin distribution ---------- *)
Lemma all_empty_repeat {B} n : all_empty (repeat (@nil B) n).
Proof. unfold all_empty; induction n; simpl; constructor; auto. Qed.

Lemma distribute_from_RR {A} n (npos : 0 < n) (xs : list A) : forall i qs ys,
  RR n 0 qs ys -> length qs = n -> i = adv n 0 (length ys) ->
  RR n 0 (distribute_from n i xs qs) (ys ++ xs) /\ length (distribute_from n i xs qs) = n.
Proof.
  induction xs as [|x xs IH]; intros i qs ys HR HL Hi; simpl.
  - rewrite app_nil_r; auto.
  - replace (ys ++ x :: xs) with ((ys ++ [x]) ++ xs) by (rewrite <- app_assoc; reflexivity).
    apply IH.
    + apply RR_snoc; auto.
    + now rewrite upd_length.
    + rewrite app_length; simpl. rewrite Nat.add_1_r. subst i. now rewrite adv_snoc.
  Qed.

Lemma distribute_RR {A} n (npos : 0 < n) (xs : list A) :
  RR n 0 (distribute n xs) xs /\ length (distribute n xs) = n.
Proof.
  unfold distribute. change xs with ([] ++ xs) at 2.
  apply distribute_from_RR; auto.
  - apply RR_nil. apply all_empty_repeat.
  - apply repeat_length.
Qed.

Lemma RR_map {A B} (f : A -> B) n m V ys : RR n m V ys -> RR n m (map (map f) V) (map f ys).
Proof.
  induction 1 as [m V He | m V y q ys Hm Hn H IH]; simpl.
  - apply RR_nil. unfold all_empty in *. rewrite Forall_forall in *. intros q Hq.
    apply in_map_iff in Hq as [q0 [<- Hq0]]. now rewrite (He _ Hq0).
  - eapply RR_take; eauto.
    + rewrite nth_error_map, Hn. reflexivity.
    + erewrite <- map_upd; eauto. intros x _. now destruct x.
Qed.

Theorem rr_pool_id {A B} (f : A -> B) n xs : 0 < n -> rr_pool f n xs = map f xs.
Proof.
  intros npos. unfold rr_pool, merge_rr.
  destruct (distribute_RR n npos xs) as [HR HL].
  apply (RR_map f) in HR.
  eapply merge_from_RR; eauto.
  - unfold pos. assert (0 <? n = true) as -> by now apply Nat.ltb_lt. exact HR.
  - lia.
  - now rewrite map_length.
  - intros; lia.
  - unfold merge_fuel. rewrite (RR_length_V _ _ _ _ HR). lia.
Qed.

(* ---------- small-step pool: every schedule delivers map f xs, then closes ---------- *)
Section PoolProof.
  Context {A B : Type}.
  Variable f : A -> B.
  Variable n cap : nat.
  Hypothesis npos : 0 < n.
  Hypothesis cpos : 0 < cap.

  Definition vs (w : wk (A:=A) (B:=B)) : list B := fw w ++ map f (tw w).

  Record PInv (xs : list A) (s : pst) : Prop := {
    I_len : length (p_ws s) = n;
    I_split : p_done_in s ++ p_inp s = xs;
    I_m : p_m s <= n;
    I_incl : p_incl s = true -> p_inp s = [];
    I_wcl : forall i w, nth_error (p_ws s) i = Some w -> wcl w = true -> p_incl s = true /\ tw w = [];
    I_rr : exists ys, RR n (pos n (p_m s)) (map vs (p_ws s)) ys
             /\ p_out s ++ ys = map f (p_done_in s)
             /\ (p_found s = false -> 0 < p_m s -> ys = [] /\ p_incl s = true)
             /\ (p_incl s = false -> p_next s = adv n (pos n (p_m s)) (length ys));
    I_closed : p_closed s = true -> p_out s = map f xs
  }.

  Lemma pos_lt m : pos n m < n.
  Proof. unfold pos; destruct (m <? n) eqn:E; [apply Nat.ltb_lt in E|]; lia. Qed.

  Lemma PInv_init xs : PInv xs (pinit n xs).
  Proof.
    constructor; simpl; auto; try lia; try discriminate.
    - apply repeat_length.
    - intros i w H. apply nth_error_In in H. apply repeat_spec in H. subst w; simpl; discriminate.
    - exists []. split; [|split; [|split]]; auto.
      + apply RR_nil. unfold all_empty. rewrite Forall_forall. intros q Hq.
        apply in_map_iff in Hq as [w [<- Hw]]. apply repeat_spec in Hw. now subst w.
      + intros; lia.
      + intros _. simpl. unfold pos. now assert (0 <? n = true) as -> by now apply Nat.ltb_lt.
  Qed.

  Lemma adv_next m k : adv n (next_idx n m) k = adv n m (S k).
  Proof. reflexivity. Qed.

  Ltac split4 := split; [|split; [|split]].
  Ltac subst_but xs :=
    repeat match goal with
    | H : ?a = ?b |- _ => is_var a; tryif constr_eq a xs then fail else subst a
    | H : ?a = ?b |- _ => is_var b; tryif constr_eq b xs then fail else subst b
    end.

  Lemma PInv_step xs s s' : PInv xs s -> pstep f n cap s s' -> PInv xs s'.
  Proof.
    intros [HL HS Hm Hi Hw [ys [HR [Ho [Hf Hn]]]] Hc] Hstep.
    inversion Hstep; subst_but xs; clear Hstep.
    - (* feed *)
      constructor; simpl; auto; try discriminate.
      + now rewrite upd_length.
      + rewrite <- app_assoc; simpl. now rewrite <- H.
      + intros i w Hnth Hcl.
        destruct (Nat.eq_dec (p_next s) i) as [<-|Hne].
        * destruct (nth_error (p_ws s) (p_next s)) as [w0|] eqn:E.
          -- erewrite nth_error_upd_eq in Hnth by eauto. inversion Hnth; subst w. simpl in Hcl.
             destruct (Hw _ _ E Hcl) as [Hx _]. congruence.
          -- pose proof E as E2. apply nth_error_None in E2. rewrite upd_ge in Hnth by lia. congruence.
        * rewrite nth_error_upd_neq in Hnth by auto. destruct (Hw _ _ Hnth Hcl). congruence.
      + exists (ys ++ [f x]). split4.
        * erewrite map_upd with (g' := snoc (f x)).
          -- apply RR_snoc; auto. now rewrite map_length. apply pos_lt.
          -- intros w _. unfold vs, wk_push, snoc; simpl. now rewrite map_app, app_assoc.
        * rewrite app_assoc, Ho, map_app. reflexivity.
        * intros Hfd Hpm. destruct (Hf Hfd Hpm) as [_ Hx]. congruence.
        * intros _. rewrite app_length; simpl. rewrite Nat.add_1_r, adv_snoc. now rewrite <- Hn.
    - (* feed_close *)
      constructor; simpl; auto.
      + rewrite <- H. exact HS.
      + intros i w Hnth Hcl. destruct (Hw _ _ Hnth Hcl); auto.
      + exists ys. split4; auto; try (intros; discriminate); try (intros Hfd Hpm; now destruct (Hf Hfd Hpm)).
    - (* work *)
      constructor; simpl; auto.
      + now rewrite upd_length.
      + intros j w0 Hnth Hcl.
        destruct (Nat.eq_dec i j) as [<-|Hne].
        * erewrite nth_error_upd_eq in Hnth by eauto. inversion Hnth; subst w0.
          unfold wk_work in Hcl. destruct (tw w) eqn:E; [congruence|]. simpl in Hcl.
          destruct (Hw _ _ H Hcl) as [_ Hx]. congruence.
        * rewrite nth_error_upd_neq in Hnth by auto. eauto.
      + exists ys. split4; auto.
        rewrite map_upd with (g' := fun q => q); [rewrite upd_id_on; auto|].
        intros w0 Hw0. rewrite H in Hw0; inversion Hw0; subst w0.
        unfold vs, wk_work. destruct (tw w) eqn:E; [congruence|]. simpl. now rewrite <- app_assoc.
    - (* wclose *)
      constructor; simpl; auto.
      + now rewrite upd_length.
      + intros j w0 Hnth Hcl.
        destruct (Nat.eq_dec i j) as [<-|Hne].
        * erewrite nth_error_upd_eq in Hnth by eauto. inversion Hnth; subst w0. simpl. auto.
        * rewrite nth_error_upd_neq in Hnth by auto. eauto.
      + exists ys. split4; auto.
        rewrite map_upd with (g' := fun q => q); [rewrite upd_id_on; auto|]. intros w0 _. reflexivity.
    - (* take *)
      assert (pos n (p_m s) = p_m s) as Hp.
      { unfold pos. now assert (p_m s <? n = true) as -> by now apply Nat.ltb_lt. }
      rewrite Hp in *.
      assert (nth_error (map vs (p_ws s)) (p_m s) = Some (y :: q ++ map f (tw w))) as Hv.
      { rewrite nth_error_map, H1. simpl. unfold vs. now rewrite H2. }
      inversion HR as [m0 V0 He | m0 V0 y0 q0 ys' Hm0 Hn0 HR']; subst.
      { pose proof (all_empty_nth _ _ _ He Hv). discriminate. }
      rewrite Hv in Hn0. inversion Hn0; subst y0 q0.
      assert (pos n (S (p_m s)) = next_idx n (p_m s)) as Hps.
      { unfold pos, next_idx. destruct (S (p_m s) <? n); auto. }
      constructor; simpl; auto; try discriminate.
      + now rewrite upd_length.
      + intros j w0 Hnth Hcl.
        destruct (Nat.eq_dec (p_m s) j) as [<-|Hne].
        * erewrite nth_error_upd_eq in Hnth by eauto. inversion Hnth; subst w0. simpl in *. eauto.
        * rewrite nth_error_upd_neq in Hnth by auto. eauto.
      + exists ys'. split4.
        * rewrite Hps.
          erewrite map_upd with (g' := @tl B); eauto.
          intros w0 Hw0. rewrite H1 in Hw0; inversion Hw0; subst w0. unfold vs, wk_pop; simpl. now rewrite H2.
        * rewrite <- app_assoc. exact Ho.
        * discriminate.
        * intros Hic. rewrite (Hn Hic). simpl. rewrite Hps. reflexivity.
    - (* skip *)
      assert (pos n (p_m s) = p_m s) as Hp.
      { unfold pos. now assert (p_m s <? n = true) as -> by now apply Nat.ltb_lt. }
      rewrite Hp in *.
      destruct (Hw _ _ H1 H3) as [Hic Htw].
      assert (nth_error (map vs (p_ws s)) (p_m s) = Some []) as Hv.
      { rewrite nth_error_map, H1. simpl. unfold vs. now rewrite H2, Htw. }
      assert (ys = [] /\ all_empty (map vs (p_ws s))) as [-> Hae].
      { inversion HR as [m0 V0 He | m0 V0 y0 q0 ys' Hm0 Hn0 HR']; subst; auto. rewrite Hv in Hn0. discriminate. }
      constructor; simpl; auto; try discriminate.
      exists []. split4; auto.
      * now apply RR_nil.
      * intros; congruence.
    - (* round *)
      constructor; simpl; auto; try lia; try discriminate.
      exists ys. split4; auto.
      + unfold pos in *. rewrite H0, Nat.ltb_irrefl in HR.
        now assert (0 <? n = true) as -> by now apply Nat.ltb_lt.
      + intros; lia.
      + intros Hic. rewrite (Hn Hic). unfold pos. rewrite H0, Nat.ltb_irrefl.
        now assert (0 <? n = true) as -> by now apply Nat.ltb_lt.
    - (* finish *)
      constructor; simpl; auto.
      + exists ys. split4; auto.
      + intros _. assert (0 < p_m s) as Hp by lia. destruct (Hf H1 Hp) as [-> Hic].
        rewrite app_nil_r in Ho. rewrite Ho. apply Hi in Hic. rewrite Hic, app_nil_r in HS. now subst xs.
  Qed.

  Theorem pool_safe xs s : preach f n cap xs s -> PInv xs s.
  Proof. induction 1; [apply PInv_init | eapply PInv_step; eauto]. Qed.

  (* closure only after the input is exhausted, with exactly map f xs delivered in order;
     before closure the deliveries are a prefix of map f xs *)
  Theorem pool_closed_exact xs s : preach f n cap xs s -> p_closed s = true ->
    p_out s = map f xs /\ p_inp s = [].
  Proof.
    intros HR Hc. pose proof (pool_safe _ _ HR) as I. split; [now apply (I_closed _ _ I)|].
    destruct I as [HL HS Hm Hi Hw [ys [HRR [Ho [Hf Hn]]]] Hcl].
    pose proof (Hcl Hc) as Hout. rewrite <- HS, map_app in Hout.
    rewrite <- Ho in Hout.
    assert (length (p_out s) = length (p_out s ++ ys) + length (map f (p_inp s))) as Hlen
      by (rewrite Hout at 1; now rewrite app_length).
    rewrite app_length, map_length in Hlen. destruct (p_inp s); auto. simpl in Hlen; lia.
  Qed.

  Theorem pool_prefix xs s : preach f n cap xs s -> exists rest, p_out s ++ rest = map f xs.
  Proof.
    intros HR. destruct (pool_safe _ _ HR) as [HL HS Hm Hi Hw [ys [HRR [Ho [Hf Hn]]]] Hcl].
    exists (ys ++ map f (p_inp s)). rewrite app_assoc, Ho, <- map_app, HS. reflexivity.
  Qed.

  (* no deadlock: an unclosed reachable state always has an enabled step *)
  Theorem pool_progress xs s : preach f n cap xs s -> p_closed s = false -> exists s', pstep f n cap s s'.
  Proof.
    intros HR Hc. destruct (pool_safe _ _ HR) as [HL HS Hm Hi Hw [ys [HRR [Ho [Hf Hn]]]] Hcl].
    destruct (Nat.eq_dec (p_m s) n) as [Hmn|Hmn].
    { destruct (p_found s) eqn:Ef; eexists; [eapply P_round | eapply P_finish]; eauto. }
    assert (p_m s < n) as Hlt by lia.
    destruct (nth_error (p_ws s) (p_m s)) as [w|] eqn:Ew; [|apply nth_error_None in Ew; lia].
    destruct (fw w) as [|y q] eqn:Efw; [|eexists; eapply P_take; eauto].
    destruct (tw w) as [|a ta] eqn:Etw.
    2:{ eexists. eapply P_work with (i := p_m s); eauto. congruence. rewrite Efw; simpl; lia. }
    destruct (wcl w) eqn:Ecl; [eexists; eapply P_skip; eauto|].
    destruct (p_incl s) eqn:Ei; [eexists; eapply P_wclose with (i := p_m s); eauto|].
    destruct (p_inp s) as [|x xs'] eqn:Ein; [eexists; eapply P_feed_close; eauto|].
    (* feeder wants to push to worker p_next; if that queue is full, that worker can work or
       its out queue is full and ... we show some step exists by looking at worker p_next *)
    set (j := p_next s).
    assert (j < n) as Hj.
    { unfold j. rewrite (Hn eq_refl). apply adv_lt; auto. apply pos_lt. }
    destruct (nth_error (p_ws s) j) as [wj|] eqn:Ewj; [|apply nth_error_None in Ewj; lia].
    destruct (Nat.lt_ge_cases (length (tw wj)) cap) as [Hroom|Hfull].
    { eexists. eapply P_feed; eauto. unfold j in Ewj. now rewrite (nth_nth_error _ _ _ _ Ewj). }
    (* worker j has a full input queue (non-empty since cap>0) *)
    destruct (Nat.lt_ge_cases (length (fw wj)) cap) as [Hroom2|Hfull2].
    { eexists. eapply P_work with (i := j); eauto. destruct (tw wj); simpl in *; [lia|congruence]. }
    (* both queues of worker j are full, so its virtual stream is non-empty; the stream the merger
       waits on (p_m s) is empty: contradiction with the RR shape (reading starts at p_m s). *)
    exfalso.
    assert (pos n (p_m s) = p_m s) as Hp.
    { unfold pos. now assert (p_m s <? n = true) as -> by now apply Nat.ltb_lt. }
    rewrite Hp in HRR.
    assert (nth_error (map vs (p_ws s)) (p_m s) = Some []) as Hv.
    { rewrite nth_error_map, Ew. simpl. unfold vs. now rewrite Efw, Etw. }
    inversion HRR as [m0 V0 He | m0 V0 y0 q0 ys' Hm0 Hn0 HR']; subst.
    - assert (nth_error (map vs (p_ws s)) j = Some (vs wj)) as Hvj by (rewrite nth_error_map, Ewj; reflexivity).
      pose proof (all_empty_nth _ _ _ He Hvj) as Hx. unfold vs in Hx.
      destruct (fw wj); simpl in *; [lia|discriminate].
    - rewrite Hv in Hn0. discriminate.
  Qed.
End PoolProof.

(* ---------- batcher ---------- *)
Lemma batches_aux_concat {A} k (xs : list A) : forall cur, concat (batches_aux k cur xs) = cur ++ xs.
Proof.
  induction xs as [|x xs IH]; intros cur; simpl.
  - destruct cur; simpl; now rewrite ?app_nil_r.
  - destruct (k <=? length (cur ++ [x])); simpl; rewrite IH; simpl; now rewrite <- ?app_assoc.
Qed.

Theorem batches_concat {A} k (xs : list A) : concat (batches k xs) = xs.
Proof. apply batches_aux_concat. Qed.

Lemma batches_aux_bounds {A} k (xs : list A) : 0 < k -> forall cur, length cur < k ->
  Forall (fun b => b <> [] /\ length b <= k) (batches_aux k cur xs).
Proof.
  intros kpos. induction xs as [|x xs IH]; intros cur Hc; simpl.
  - destruct cur; constructor; auto. split; [discriminate|lia].
  - destruct (k <=? length (cur ++ [x])) eqn:E.
    + constructor; [|apply IH; simpl; lia]. rewrite app_length in *; simpl in *. split; [destruct cur; discriminate|lia].
    + apply IH. apply Nat.leb_gt in E. exact E.
Qed.

Theorem batches_bounds {A} k (xs : list A) : 0 < k ->
  Forall (fun b => b <> [] /\ length b <= k) (batches k xs).
Proof. intros; apply batches_aux_bounds; simpl; auto. Qed.

Section BatcherProof.
  Context {A : Type}.
  Variable k : nat.
  Hypothesis kpos : 0 < k.

  Record BInv (xs : list A) (s : bst) : Prop := {
    BI_split : concat (b_out s) ++ b_cur s ++ b_inp s = xs;
    BI_bounds : Forall (fun b => b <> [] /\ length b <= k) (b_out s);
    BI_cur : length (b_cur s) < k;
    BI_open : b_open s = false -> b_inp s = [];
    BI_closed : b_closed s = true -> b_cur s = [] /\ b_inp s = [] /\ b_open s = false
  }.

  Lemma flush_if_inv xs t s :
    concat (b_out s) ++ b_cur s ++ b_inp s = xs ->
    Forall (fun b => b <> [] /\ length b <= k) (b_out s) ->
    length (b_cur s) <= k -> (b_open s = false -> b_inp s = []) -> b_closed s = false ->
    BInv xs (flush_if k t s).
  Proof.
    intros H1 H2 H3 H4 H5. unfold flush_if.
    destruct (b_cur s) as [|c cs] eqn:Ec.
    - constructor; auto; try congruence. rewrite Ec; simpl; lia.
    - destruct ((k <=? length (c :: cs)) || t) eqn:E.
      + constructor; simpl; auto; try congruence.
        * rewrite concat_app; simpl. rewrite app_nil_r, <- app_assoc. exact H1.
        * apply Forall_app; split; auto. constructor; auto. split; [discriminate|exact H3].
      + apply orb_false_iff in E as [E _]. apply Nat.leb_gt in E.
        constructor; auto; try congruence; try (now rewrite Ec).
  Qed.

  Lemma BInv_init xs : BInv xs (binit xs).
  Proof. constructor; simpl; auto; try discriminate. Qed.

  Lemma BInv_step xs s s' : BInv xs s -> bstep k s s' -> BInv xs s'.
  Proof.
    intros [H1 H2 H3 H4 H5] Hs.
    assert (b_open s = true -> b_closed s = false) as Hoc.
    { intros Ho. destruct (b_closed s) eqn:E; auto. destruct (H5 eq_refl) as [_ [_ Hx]]. congruence. }
    inversion Hs as [s0 x xs' t Ho Hi | s0 t Ho | s0 t Ho Hi | s0 Ho Hc]; subst s0 s'; clear Hs.
    - apply flush_if_inv; simpl; auto; try discriminate.
      + rewrite <- app_assoc; simpl. now rewrite <- Hi.
      + rewrite app_length; simpl; lia.
    - apply flush_if_inv; auto; try lia.
    - apply flush_if_inv; simpl; auto; try lia. now rewrite <- Hi.
    - pose proof (H4 Ho) as Hi. rewrite Hi in H1. rewrite app_nil_r in H1.
      constructor; simpl; auto.
      + rewrite Hi. destruct (b_cur s) as [|c cs] eqn:Ec; simpl in *; rewrite ?app_nil_r in *; auto.
        rewrite concat_app; simpl. now rewrite app_nil_r.
      + destruct (b_cur s) as [|c cs] eqn:Ec; auto.
        apply Forall_app; split; auto. constructor; auto. split; [discriminate|lia].
  Qed.

  Theorem batcher_safe xs s : breach k xs s -> BInv xs s.
  Proof. induction 1; [apply BInv_init | eapply BInv_step; eauto]. Qed.

  (* whatever the timeouts do: once closed, the batches concatenate to the input, each is
     non-empty and no longer than batchSize *)
  Theorem batcher_closed_exact xs s : breach k xs s -> b_closed s = true ->
    concat (b_out s) = xs /\ Forall (fun b : list A => b <> [] /\ length b <= k) (b_out s).
  Proof.
    intros HR Hc. destruct (batcher_safe _ _ HR) as [H1 H2 H3 H4 H5].
    destruct (H5 Hc) as [E1 [E2 _]]. rewrite E1, E2, !app_nil_r in H1. auto.
  Qed.

  Theorem batcher_progress (xs : list A) s : breach k xs s -> b_closed s = false -> exists s', bstep k s s'.
  Proof.
    intros _ Hc. destruct (b_open s) eqn:Eo.
    - eexists. eapply B_idle with (t := false); eauto.
    - eexists. eapply B_final; eauto.
  Qed.
End BatcherProof.

(* ---------- mux ---------- *)
Section MuxProof.
  Context {A B : Type}.
  Variable g : nat -> A -> B.

  (* replaying the outstanding order tokens against the virtual pipeline streams *)
  Definition pvs (i : nat) (p : pl (A:=A) (B:=B)) : list B := pl_out p ++ map (g i) (pl_in p).

  Fixpoint imap_from {X Y} (i : nat) (h : nat -> X -> Y) (l : list X) : list Y :=
    match l with [] => [] | x :: r => h i x :: imap_from (S i) h r end.

  Inductive Replay : list nat -> list (list B) -> list B -> Prop :=
  | Rp_nil : forall V, Forall (fun q => q = []) V -> Replay [] V []
  | Rp_cons : forall i rest V y q ys, nth_error V i = Some (y :: q) ->
      Replay rest (upd i (@tl B) V) ys -> Replay (i :: rest) V (y :: ys).

  Lemma Replay_snoc ord V ys i y :
    Replay ord V ys -> i < length V -> Replay (ord ++ [i]) (upd i (snoc y) V) (ys ++ [y]).
  Proof.
    induction 1 as [V He | j rest V y0 q ys Hn H IH]; intros Hi; simpl.
    - destruct (nth_error V i) as [q|] eqn:E; [|apply nth_error_None in E; lia].
      assert (q = []) as -> by (rewrite Forall_forall in He; apply He; eapply nth_error_In; eauto).
      eapply Rp_cons with (q := []).
      + erewrite nth_error_upd_eq by eauto. reflexivity.
      + apply Rp_nil. rewrite upd_upd_same. rewrite upd_id_on; auto.
        intros x Hx. rewrite E in Hx. now inversion Hx.
    - destruct (Nat.eq_dec i j) as [->|Hne].
      + eapply Rp_cons with (q := q ++ [y]).
        * erewrite nth_error_upd_eq by eauto. reflexivity.
        * rewrite upd_upd_same.
          assert (upd j (fun x0 => tl (snoc y x0)) V = upd j (snoc y) (upd j (@tl B) V)) as ->.
          { rewrite upd_upd_same. apply upd_ext. intros x0 Hx0. rewrite Hn in Hx0; inversion Hx0; subst. reflexivity. }
          apply IH. now rewrite upd_length.
      + eapply Rp_cons with (q := q).
        * rewrite nth_error_upd_neq by auto. exact Hn.
        * rewrite upd_upd_comm by auto. apply IH. now rewrite upd_length.
  Qed.

  Record MInv (np : nat) (puts : list (nat * A)) (s : mst) : Prop := {
    MI_len : length (m_pls s) = np;
    MI_split : m_done s ++ m_puts s = puts;
    MI_rp : exists ys, Replay (m_order s) (imap_from 0 pvs (m_pls s)) ys
              /\ m_res s ++ ys = map (fun '(i, x) => g i x) (m_done s);
    MI_cl : m_clreq s = true -> m_puts s = [];
    MI_closed : m_closed s = true ->
      m_res s = map (fun '(i, x) => g i x) puts /\ m_order s = [] /\ m_clreq s = true
  }.

  Lemma imap_from_length {X Y} (h : nat -> X -> Y) l : forall i, length (imap_from i h l) = length l.
  Proof. induction l; simpl; auto. Qed.

  Lemma imap_from_nth {X Y} (h : nat -> X -> Y) l : forall i0 i,
    nth_error (imap_from i0 h l) i = option_map (h (i0 + i)) (nth_error l i).
  Proof. induction l as [|x r IH]; intros i0 [|i]; simpl; auto.
    - now rewrite Nat.add_0_r.
    - rewrite IH. now rewrite Nat.add_succ_r. Qed.

  Lemma imap_from_upd {X Y} (h : nat -> X -> Y) (u : X -> X) (u' : Y -> Y) l : forall i0 i,
    (forall x, nth_error l i = Some x -> h (i0 + i) (u x) = u' (h (i0 + i) x)) ->
    imap_from i0 h (upd i u l) = upd i u' (imap_from i0 h l).
  Proof. induction l as [|x r IH]; intros i0 [|i] H; simpl; auto.
    - f_equal. rewrite Nat.add_0_r in H. apply H; reflexivity.
    - f_equal. apply IH. intros x0 Hx0. replace (S i0 + i) with (i0 + S i) by lia. now apply H. Qed.

  Lemma MInv_init np puts : MInv np puts (minit np puts).
  Proof.
    constructor; simpl; auto; try discriminate.
    - apply repeat_length.
    - exists []. split; auto. apply Rp_nil. rewrite Forall_forall. intros q Hq.
      apply In_nth_error in Hq as [i Hi]. rewrite imap_from_nth in Hi.
      destruct (nth_error (repeat _ np) i) eqn:E; [|discriminate]. simpl in Hi.
      apply nth_error_In, repeat_spec in E. subst p. inversion Hi. reflexivity.
  Qed.

  Lemma MInv_step np puts s s' : MInv np puts s -> mstep g s s' -> MInv np puts s'.
  Proof.
    intros [HL HS [ys [HR Ho]] Hcl Hc] Hstep.
    inversion Hstep as [s0 i x rest Hp Hi | s0 i p Hn Hne | s0 i rest p y q Hord Hn Hout
                       | s0 Hp Hcr | s0 Hcr Hord Hcd]; subst s0 s'; clear Hstep.
    - constructor; simpl; auto; try discriminate.
      + now rewrite upd_length.
      + rewrite <- app_assoc; simpl. now rewrite <- Hp.
      + exists (ys ++ [g i x]). split.
        * rewrite imap_from_upd with (u' := snoc (g i x)).
          -- apply Replay_snoc; auto. now rewrite imap_from_length.
          -- intros p _. unfold pvs, pl_push, snoc; simpl. now rewrite map_app, app_assoc.
        * rewrite app_assoc, Ho, map_app. reflexivity.
      + intros E. destruct (Hc E) as [_ [_ Hx]]. rewrite (Hcl Hx) in Hp. discriminate.
    - constructor; simpl; auto.
      + now rewrite upd_length.
      + exists ys. split; auto.
        rewrite imap_from_upd with (u' := fun q => q); [rewrite upd_id_on; auto|].
        intros p0 Hp0. rewrite Hn in Hp0; inversion Hp0; subst p0.
        unfold pvs, pl_work; simpl. destruct (pl_in p) eqn:E; [congruence|]. simpl. now rewrite <- app_assoc.
    - assert (nth_error (imap_from 0 pvs (m_pls s)) i = Some (y :: q ++ map (g i) (pl_in p))) as Hv.
      { rewrite imap_from_nth, Hn. simpl. unfold pvs. now rewrite Hout. }
      rewrite Hord in HR.
      inversion HR as [| i0 rest0 V0 y0 q0 ys' Hn0 HR' E1 E2 E3]; subst i0 rest0 V0 ys.
      rewrite Hv in Hn0; inversion Hn0; subst y0 q0.
      constructor; simpl; auto.
      + now rewrite upd_length.
      + exists ys'. split.
        * rewrite imap_from_upd with (u' := @tl B); auto.
          intros p0 Hp0. rewrite Hn in Hp0; inversion Hp0; subst p0. unfold pvs, pl_pop; simpl. now rewrite Hout.
        * rewrite <- app_assoc. exact Ho.
      + intros E. destruct (Hc E) as [_ [Hx _]]. congruence.
    - constructor; simpl; auto. rewrite <- Hp. exact HS. exists ys; auto.
      intros E. destruct (Hc E) as [H1 [H2 H3]]. auto.
    - constructor; simpl; auto.
      + exists ys; split; auto. now rewrite <- Hord.
      + intros _. rewrite Hord in HR. inversion HR as [V0 He E1 E2 |]; subst ys. rewrite app_nil_r in Ho.
        rewrite (Hcl Hcr), app_nil_r in HS. subst puts. auto.
  Qed.

  Theorem mux_safe np puts s : mreach g np puts s -> MInv np puts s.
  Proof. induction 1; [apply MInv_init | eapply MInv_step; eauto]. Qed.

  Theorem mux_closed_exact np puts s : mreach g np puts s -> m_closed s = true ->
    m_res s = map (fun '(i, x) => g i x) puts.
  Proof. intros HR Hc. now destruct (MI_closed _ _ _ (mux_safe _ _ _ HR) Hc). Qed.

  Theorem mux_prefix np puts s : mreach g np puts s ->
    exists rest, m_res s ++ rest = map (fun '(i, x) => g i x) puts.
  Proof.
    intros HR. destruct (mux_safe _ _ _ HR) as [HL HS [ys [HRp Ho]] Hcl Hc].
    exists (ys ++ map (fun '(i, x) => g i x) (m_puts s)). rewrite app_assoc, Ho, <- map_app, HS. reflexivity.
  Qed.
End MuxProof.

(* ---------- chains (DualProcessor; jump queue = chain with load x = [x], deser = id) ---------- *)
Section ChainProof.
  Context {A B C : Type}.
  Variable load : A -> list B.
  Variable deser : B -> C.

  Record CInv (xs : list A) (s : cst) : Prop := {
    CI_split : exists done, done ++ c_inp s = xs /\ c_res s ++ map deser (c_mid s) = chain_fun load deser done;
    CI_mc : c_midclosed s = true -> c_inp s = [];
    CI_closed : c_closed s = true -> c_mid s = [] /\ c_midclosed s = true
  }.

  Lemma CInv_step xs s s' : CInv xs s -> cstep load deser s s' -> CInv xs s'.
  Proof.
    intros [[done [HS Ho]] Hm Hc] Hstep.
    inversion Hstep as [s0 x xs' Hi | s0 Hi Hmc | s0 y q Hmid | s0 Hmid Hmc Hcl]; subst s0 s'; clear Hstep.
    - constructor; simpl; try discriminate.
      + exists (done ++ [x]). split. rewrite <- app_assoc; simpl. now rewrite <- Hi.
        unfold chain_fun in *. rewrite flat_map_app, !map_app, app_assoc, Ho. simpl. now rewrite app_nil_r.
      + intros E. destruct (Hc E) as [_ Hx]. rewrite Hi in Hm. specialize (Hm Hx). discriminate.
    - constructor; simpl; auto. exists done. rewrite <- Hi. auto.
      intros E. destruct (Hc E). congruence.
    - constructor; simpl; auto.
      + exists done. split; auto. rewrite <- app_assoc. simpl. rewrite <- Ho, Hmid. reflexivity.
      + intros E. destruct (Hc E) as [Hx _]. congruence.
    - constructor; simpl; auto. exists done. rewrite Hmid in Ho. auto.
  Qed.

  Lemma CInv_init xs : CInv xs (cinit xs).
  Proof. constructor; simpl; try discriminate. exists []. auto. Qed.

  Theorem chain_safe xs s : creach load deser xs s -> CInv xs s.
  Proof. induction 1; [apply CInv_init | eapply CInv_step; eauto]. Qed.

  Theorem chain_closed_exact xs s : creach load deser xs s -> c_closed s = true ->
    c_res s = chain_fun load deser xs.
  Proof.
    intros HR Hc. destruct (chain_safe _ _ HR) as [[done [HS Ho]] Hm Hcl].
    destruct (Hcl Hc) as [E1 E2]. rewrite (Hm E2), app_nil_r in HS. subst done.
    rewrite E1 in Ho. simpl in Ho. now rewrite app_nil_r in Ho.
  Qed.

  Theorem chain_progress xs s : creach load deser xs s -> c_closed s = false -> exists s', cstep load deser s s'.
  Proof.
    intros _ Hc. destruct (c_mid s) eqn:Em.
    - destruct (c_midclosed s) eqn:Emc.
      + eexists; eapply C_finish; eauto.
      + destruct (c_inp s) eqn:Ei; eexists; [eapply C_eof | eapply C_load]; eauto.
    - eexists; eapply C_deser; eauto.
  Qed.
End ChainProof.
