(* C03, the refinement itself: under the guard (an edge id is never re-added with other endpoints or label, a vertex
   id never with another label) the abstract graph a store denotes after ANY history is the last-write-wins
   graph of that history, and every call succeeds exactly when the specification says so. *)
From Coq Require Import List NArith Bool Arith Lia.
Import ListNotations.
From Grip Require Import Model.KVGraph Proofs.KVGraphProofs.

(* every edge record agrees with what the ghost remembers for its (graph, id) *)
Definition GhE (h : ghost) (s : gstore) : Prop :=
  forall t d, In (t, d) (edges s) ->
    option_map snd (find (fun y => pair_eqb (et_g t, et_e t) (fst y)) (gh_e h)) = Some (et_s t, et_d t, et_l t).

Lemma triple_eqb_eq a b : triple_eqb a b = true <-> a = b.
Proof.
  destruct a as [[a1 a2] a3], b as [[b1 b2] b3]. unfold triple_eqb. cbn [fst snd].
  rewrite !andb_true_iff, !N.eqb_eq. split; [intros [[-> ->] ->]; reflexivity|intros H; inversion H; auto].
Qed.
Lemma etup_split (t : etup) : t = (et_g t, et_e t, et_s t, et_d t, et_l t).
Proof. destruct t as [[[[g e] s] d] l]. reflexivity. Qed.

Lemma filter_filter_and {X} (p q : X -> bool) l : filter p (filter q l) = filter (fun x => q x && p x) l.
Proof. induction l as [|x r IH]; [reflexivity|]. cbn. destruct (q x); cbn; [destruct (p x); rewrite IH; reflexivity|exact IH]. Qed.

(* ---------- what the write groups do to the three components abs looks at ---------- *)
Definition core (s : gstore) := (graphs s, verts s, edges s).
Definition index_only (w : wr) : bool :=
  match w with
  | WSetSrc _ | WDelSrc _ | WSetDst _ | WDelDst _ | WDelSrcsOf _ | WDelDstsOf _
  | WSetField _ | WDelField _ | WDelTermsOf _ | WDelEntriesOf _ | WSetTerm _ _ | WSetEntry _ _ _ => true
  | _ => false
  end.
Lemma core_index_only s w : index_only w = true -> core (apply_wr s w) = core s.
Proof. destruct w; cbn; try discriminate; reflexivity. Qed.
Lemma core_index_onlys ws : forallb index_only ws = true -> forall s, core (fold_left apply_wr ws s) = core s.
Proof.
  induction ws as [|w r IH]; intros H s; [reflexivity|]. cbn in H. apply andb_true_iff in H as [H1 H2].
  cbn [fold_left]. rewrite IH by exact H2. apply core_index_only, H1.
Qed.
Lemma abs_core s s' : core s = core s' -> abs s = abs s'.
Proof. unfold core, abs. intros H. inversion H. reflexivity. Qed.

Lemma core_vertex_writes r g v l d s :
  core (fold_left apply_wr (vertex_writes r g v l d) s) = (graphs s, ((g, v), (l, d)) :: rmk pair_eqb (g, v) (verts s), edges s).
Proof. unfold vertex_writes. destruct (in_reg r (g, true)); reflexivity. Qed.
Lemma core_edge_writes r g e a b l d s :
  core (fold_left apply_wr (edge_writes r g e a b l d) s) =
  (graphs s, verts s, ((g, e, a, b, l), d) :: rmk etup_eqb (g, e, a, b, l) (edges s)).
Proof. unfold edge_writes. destruct (in_reg r (g, false)); reflexivity. Qed.

Lemma core_del_tuples ts : forall s,
  core (fold_left apply_wr (flat_map del_tuple ts) s) =
  (graphs s, verts s, filter (fun x => negb (existsb (fun t => etup_eqb t (fst x)) ts)) (edges s)).
Proof.
  induction ts as [|t r IH]; intros s.
  - cbn [flat_map fold_left existsb negb]. unfold core. f_equal. induction (edges s) as [|x xs IHx]; [reflexivity|]. cbn [filter]. f_equal. exact IHx.
  - cbn [flat_map del_tuple app fold_left]. rewrite IH. cbn [apply_wr graphs verts edges].
    f_equal. unfold rmk. rewrite filter_filter_and. apply filter_ext. intros x. cbn [existsb].
    destruct (etup_eqb t (fst x)); cbn; reflexivity.
Qed.

(* ---------- edges: replacing by tuple = replacing by (graph, id), when the ghost agrees ---------- *)
Lemma key_of_abs_edge x : fst (abs_edge x) = (et_g (fst x), et_e (fst x)).
Proof. reflexivity. Qed.

Lemma rmk_abs_edge h s g e a b l d :
  GhE h s -> gh_elem_ok g h (EE e a b l d) = true ->
  map abs_edge (rmk etup_eqb (g, e, a, b, l) (edges s)) = rmk pair_eqb (g, e) (map abs_edge (edges s)).
Proof.
  intros HG Hok. unfold rmk. rewrite filter_map_comm. f_equal. apply filter_ext_in. intros [t d'] Hin.
  cbn [fst]. rewrite key_of_abs_edge. cbn [fst]. f_equal.
  destruct (pair_eqb (g, e) (et_g t, et_e t)) eqn:Ek.
  - apply pair_eqb_eq in Ek. injection Ek as Eg Ee. specialize (HG _ _ Hin). rewrite <- Eg, <- Ee in HG.
    cbn [gh_elem_ok] in Hok. destruct (find (fun y => pair_eqb (g, e) (fst y)) (gh_e h)) as [[k v]|]; [|discriminate].
    cbn in HG. inversion HG as [Hv]. subst v. apply triple_eqb_eq in Hok. inversion Hok; subst.
    apply etup_eqb_eq. symmetry. apply etup_split.
  - destruct (etup_eqb (g, e, a, b, l) t) eqn:Et; [|reflexivity]. apply etup_eqb_eq in Et. subst t.
    assert (Hk : pair_eqb (g, e) (g, e) = true) by (apply pair_eqb_eq; reflexivity). cbn [et_g et_e] in Ek. congruence.
Qed.

Lemma GhE_add_edge h s g e a b l d :
  GhE h s -> gh_elem_ok g h (EE e a b l d) = true ->
  forall t d', In (t, d') (((g, e, a, b, l), d) :: rmk etup_eqb (g, e, a, b, l) (edges s)) ->
    option_map snd (find (fun y => pair_eqb (et_g t, et_e t) (fst y)) (gh_e (gh_add g h (EE e a b l d)))) = Some (et_s t, et_d t, et_l t).
Proof.
  intros HG Hok t d' [E|Hin]; cbn [gh_add gh_e find fst].
  - inversion E; subst. cbn [et_g et_e et_s et_d et_l].
    assert (Hk : pair_eqb (g, e) (g, e) = true) by (apply pair_eqb_eq; reflexivity). rewrite Hk. reflexivity.
  - unfold rmk in Hin. apply filter_In in Hin as [Hin Hne]. cbn [fst] in Hne. apply negb_true_iff in Hne.
    destruct (pair_eqb (et_g t, et_e t) (g, e)) eqn:Ek.
    + (* same (graph, id): the ghost forces the same tuple, which was removed *)
      exfalso. apply pair_eqb_eq in Ek. injection Ek as Eg Ee. specialize (HG _ _ Hin). rewrite Eg, Ee in HG.
      cbn [gh_elem_ok] in Hok. destruct (find (fun y => pair_eqb (g, e) (fst y)) (gh_e h)) as [[k v]|]; [|discriminate].
      cbn in HG. inversion HG as [Hv]. subst v. apply triple_eqb_eq in Hok. inversion Hok; subst.
      assert (Et : etup_eqb (et_g t, et_e t, et_s t, et_d t, et_l t) t = true) by (apply etup_eqb_eq; symmetry; apply etup_split).
      congruence.
    + apply HG with d'. exact Hin.
Qed.

(* ---------- one element ---------- *)
Lemma elem_abs r g x h s :
  GhE h s -> gh_elem_ok g h x = true ->
  abs (fold_left apply_wr (elem_writes r g x) s) = a_add_elem g (abs s) x /\
  GhE (gh_add g h x) (fold_left apply_wr (elem_writes r g x) s).
Proof.
  intros HG Hok. destruct x as [v l d|e a b l d]; cbn [elem_writes].
  - pose proof (core_vertex_writes r g v l d s) as Hc.
    pose proof (f_equal (fun c => fst (fst c)) Hc) as Hg. pose proof (f_equal (fun c => snd (fst c)) Hc) as Hv. pose proof (f_equal snd Hc) as He.
    cbn [core fst snd] in Hg, Hv, He. clear Hc. split.
    + unfold abs, a_add_elem. cbn [a_graphs a_verts a_edges]. rewrite Hg, Hv, He. reflexivity.
    + unfold GhE. rewrite He. cbn [gh_add gh_e]. exact HG.
  - pose proof (core_edge_writes r g e a b l d s) as Hc.
    pose proof (f_equal (fun c => fst (fst c)) Hc) as Hg. pose proof (f_equal (fun c => snd (fst c)) Hc) as Hv. pose proof (f_equal snd Hc) as He.
    cbn [core fst snd] in Hg, Hv, He. clear Hc. split.
    + unfold abs, a_add_elem. cbn [a_graphs a_verts a_edges]. rewrite Hg, Hv, He. cbn [map abs_edge fst snd et_g et_e et_s et_d et_l].
      rewrite (rmk_abs_edge h s g e a b l d HG Hok). reflexivity.
    + unfold GhE. rewrite He. apply GhE_add_edge; assumption.
Qed.

Lemma elems_abs r g els : forall h h' s,
  GhE h s -> gh_elems g h els = Some h' ->
  abs (fold_left apply_wr (flat_map (elem_writes r g) els) s) = fold_left (a_add_elem g) els (abs s) /\
  GhE h' (fold_left apply_wr (flat_map (elem_writes r g) els) s).
Proof.
  induction els as [|x xs IH]; intros h h' s HG Hs.
  - cbn in *. inversion Hs; subst. auto.
  - cbn [gh_elems] in Hs. destruct (gh_elem_ok g h x) eqn:Hok; [|discriminate].
    cbn [flat_map fold_left]. rewrite fold_left_app.
    destruct (elem_abs r g x h s HG Hok) as [Ha HG'].
    destruct (IH _ _ _ HG' Hs) as [Ha2 HG2]. rewrite Ha2, Ha. auto.
Qed.

(* ---------- deletions ---------- *)
Lemma has_graph_abs s g : has_graph s g = a_has_graph (abs s) g. Proof. reflexivity. Qed.

Lemma del_vertex_abs s g v : Cons s ->
  map abs_edge (filter (fun x => negb (existsb (fun t => etup_eqb t (fst x)) (del_vertex_keys s g v))) (edges s)) =
  filter (fun x => negb (N.eqb g (fst (fst x)) && (N.eqb v (ae_from x) || N.eqb v (ae_to x)))) (map abs_edge (edges s)).
Proof.
  intros [Hs Hd _ _]. rewrite filter_map_comm. f_equal. apply filter_ext_in. intros [t d] Hin. cbn [fst]. f_equal.
  unfold del_vertex_keys. rewrite existsb_app, Hs, Hd.
  assert (Hmem : In t (map fst (edges s))) by (apply in_map_iff; exists (t, d); auto).
  assert (Hex : forall p : etup -> bool, existsb (fun t0 => etup_eqb t0 t) (filter p (map fst (edges s))) = p t).
  { intros p. destruct (p t) eqn:Ep.
    - apply existsb_exists. exists t. split; [apply filter_In; auto|apply etup_eqb_eq; reflexivity].
    - destruct (existsb _ _) eqn:Ex; [|reflexivity]. apply existsb_exists in Ex as [t0 [Hf Ht]]. apply etup_eqb_eq in Ht. subst t0.
      apply filter_In in Hf as [_ Hf]. congruence. }
  rewrite !Hex. unfold abs_edge, ae_from, ae_to. cbn [fst snd]. destruct (N.eqb g (et_g t)); cbn; reflexivity.
Qed.

Lemma del_edge_abs s g e :
  map abs_edge (filter (fun x => negb (existsb (fun t => etup_eqb t (fst x)) (del_edge_keys s g e))) (edges s)) =
  rmk pair_eqb (g, e) (map abs_edge (edges s)).
Proof.
  unfold rmk. rewrite filter_map_comm. f_equal. apply filter_ext_in. intros [t d] Hin. cbn [fst]. f_equal.
  rewrite key_of_abs_edge. cbn [fst]. unfold del_edge_keys.
  destruct (pair_eqb (g, e) (et_g t, et_e t)) eqn:Ek.
  - apply existsb_exists. exists t. split; [|apply etup_eqb_eq; reflexivity].
    apply in_map_iff. exists (t, d). split; [reflexivity|]. apply filter_In. split; [exact Hin|]. cbn [fst]. exact Ek.
  - destruct (existsb _ _) eqn:Ex; [|reflexivity]. apply existsb_exists in Ex as [t0 [Hf Ht]]. apply etup_eqb_eq in Ht. subst t0.
    apply in_map_iff in Hf as [[t1 d1] [E1 Hf]]. cbn in E1. subst t1. apply filter_In in Hf as [_ Hf]. cbn [fst] in Hf.
    unfold pair_eqb in Ek. cbn [fst snd] in Ek. congruence.
Qed.

Lemma del_edge_keys_nil s g e :
  (match del_edge_keys s g e with [] => false | _ => true end) = existsb (fun x => pair_eqb (g, e) (fst x)) (map abs_edge (edges s)).
Proof.
  unfold del_edge_keys. induction (edges s) as [|[t d] r IH]; [reflexivity|]. cbn [filter map existsb fst].
  rewrite key_of_abs_edge. cbn [fst]. unfold pair_eqb at 1. cbn [fst snd].
  destruct (N.eqb g (et_g t) && N.eqb e (et_e t)) eqn:E; cbn [map]; [reflexivity|exact IH].
Qed.

Lemma GhE_filter h s (p : etup * dat -> bool) s' : GhE h s -> edges s' = filter p (edges s) -> GhE h s'.
Proof. intros HG He t d Hin. rewrite He in Hin. apply filter_In in Hin as [Hin _]. apply HG with d. exact Hin. Qed.

Lemma find_filter_all {X} (f p : X -> bool) l : (forall y, f y = true -> p y = true) -> find f (filter p l) = find f l.
Proof.
  intros H. induction l as [|x r IH]; [reflexivity|]. cbn. destruct (p x) eqn:Ep; cbn.
  - destruct (f x); [reflexivity|exact IH].
  - destruct (f x) eqn:Ef; [rewrite (H _ Ef) in Ep; discriminate|exact IH].
Qed.

Lemma core_cleanup g (fs : list (id * bool)) : forall s,
  core (fold_left apply_call (flat_map (fun f : id * bool => if N.eqb (fst f) g then [[WDelTermsOf f]; [WDelEntriesOf f]; [WDelField f]] else []) fs) s) = core s.
Proof.
  induction fs as [|f r IH]; intros s; [reflexivity|]. cbn [flat_map].
  destruct (N.eqb (fst f) g); [|apply IH]. rewrite fold_left_app, IH. reflexivity.
Qed.

Definition delete_graph_calls (g : id) (fs : list (id * bool)) : list call :=
  [[WDelEdgesOf g]; [WDelVertsOf g]; [WDelSrcsOf g]; [WDelDstsOf g]; [WDelGraph g]] ++
  flat_map (fun f : id * bool => if N.eqb (fst f) g then [[WDelTermsOf f]; [WDelEntriesOf f]; [WDelField f]] else []) fs.
Lemma core_delete_graph_calls s g fs :
  core (apply_calls s (delete_graph_calls g fs)) =
  (rm N.eqb g (graphs s), filter (fun v => negb (N.eqb g (fst (fst v)))) (verts s),
   filter (fun e => negb (N.eqb g (et_g (fst e)))) (edges s)).
Proof. unfold delete_graph_calls, apply_calls. rewrite fold_left_app, core_cleanup. reflexivity. Qed.

Ltac cores Hc Hg Hv He :=
  pose proof (f_equal (fun c => fst (fst c)) Hc) as Hg; pose proof (f_equal (fun c => snd (fst c)) Hc) as Hv;
  pose proof (f_equal snd Hc) as He; cbn [core fst snd] in Hg, Hv, He; clear Hc.

(* edge records only exist in graphs that exist *)
Definition EG (s : gstore) : Prop := forall t d, In (t, d) (edges s) -> has_graph s (et_g t) = true.

Lemma has_graph_rm s g g' : g' <> g -> existsb (N.eqb g') (rm N.eqb g (graphs s)) = has_graph s g'.
Proof.
  intros Hne. unfold has_graph, rm. induction (graphs s) as [|x r IH]; [reflexivity|]. cbn.
  destruct (N.eqb_spec g x); cbn.
  - subst x. destruct (N.eqb_spec g' g); [congruence|exact IH].
  - rewrite IH. reflexivity.
Qed.

Lemma step_EG m o : EG (kv m) -> EG (kv (fst (step m o))).
Proof.
  intros HE. unfold step. destruct (op_calls m o) as [cs|] eqn:Ec; [|exact HE]. cbn [fst kv touch].
  destruct o as [g|g|g v l d|g e a b l d|g els|g v|g e]; cbn [op_calls] in Ec.
  - destruct (valid_name g); inversion Ec; subst cs. unfold apply_calls, apply_call; cbn [fold_left apply_wr].
    intros t d Hin. cbn [edges] in Hin. specialize (HE _ _ Hin). unfold has_graph in *. cbn [graphs existsb].
    destruct (N.eqb_spec (et_g t) g); [reflexivity|]. cbn. rewrite (has_graph_rm (kv m) g (et_g t) n). exact HE.
  - destruct (has_graph (kv m) g); inversion Ec; subst cs.
    change (EG (apply_calls (kv m) (delete_graph_calls g (ixfields (kv m))))).
    pose proof (core_delete_graph_calls (kv m) g (ixfields (kv m))) as Hcore.
    cores Hcore Hg Hv He. intros t d Hin. rewrite He in Hin. apply filter_In in Hin as [Hin Hne]. cbn [fst] in Hne.
    unfold has_graph. rewrite Hg. apply negb_true_iff in Hne. rewrite has_graph_rm; [apply HE with d; exact Hin|].
    intros E. rewrite E, N.eqb_refl in Hne. discriminate.
  - destruct (has_graph (kv m) g && valid_vertex v l d); inversion Ec; subst cs. unfold apply_calls, apply_call; cbn [fold_left].
    pose proof (core_vertex_writes (reg m) g v l d (kv m)) as Hc. cores Hc Hg Hv He. intros t d0 Hin. rewrite He in Hin.
    unfold has_graph. rewrite Hg. apply HE with d0. exact Hin.
  - destruct (has_graph (kv m) g && valid_edge e a b l d) eqn:E; inversion Ec; subst cs. apply andb_true_iff in E as [Eg _].
    unfold apply_calls, apply_call; cbn [fold_left].
    pose proof (core_edge_writes (reg m) g e a b l d (kv m)) as Hc. cores Hc Hg Hv He. intros t d0 Hin. rewrite He in Hin.
    unfold has_graph. rewrite Hg. destruct Hin as [Hin|Hin]; [inversion Hin; subst; exact Eg|].
    unfold rmk in Hin. apply filter_In in Hin as [Hin _]. apply HE with d0. exact Hin.
  - destruct (has_graph (kv m) g) eqn:Eg; inversion Ec; subst cs. unfold apply_calls, apply_call; cbn [fold_left].
    clear Ec. generalize (filter valid_elem els). intros xs. revert HE Eg. generalize (kv m). induction xs as [|x r IH]; intros s HE Eg; [exact HE|].
    cbn [flat_map]. rewrite fold_left_app. apply IH.
    + destruct x as [v l d|e a b l d]; cbn [elem_writes].
      * pose proof (core_vertex_writes (reg m) g v l d s) as Hc. cores Hc Hg Hv He. intros t d0 Hin. rewrite He in Hin.
        unfold has_graph. rewrite Hg. apply HE with d0. exact Hin.
      * pose proof (core_edge_writes (reg m) g e a b l d s) as Hc. cores Hc Hg Hv He. intros t d0 Hin. rewrite He in Hin.
        unfold has_graph. rewrite Hg. destruct Hin as [Hin|Hin]; [inversion Hin; subst; exact Eg|].
        unfold rmk in Hin. apply filter_In in Hin as [Hin _]. apply HE with d0. exact Hin.
    + destruct x as [v l d|e a b l d]; cbn [elem_writes].
      * pose proof (core_vertex_writes (reg m) g v l d s) as Hc. cores Hc Hg Hv He. unfold has_graph. rewrite Hg. exact Eg.
      * pose proof (core_edge_writes (reg m) g e a b l d s) as Hc. cores Hc Hg Hv He. unfold has_graph. rewrite Hg. exact Eg.
  - destruct (has_graph (kv m) g && existsb _ _); inversion Ec; subst cs. unfold apply_calls, apply_call; cbn [fold_left apply_wr].
    pose proof (core_del_tuples (del_vertex_keys (kv m) g v) (apply_wr (kv m) (WDelVert g v))) as Hc. cbn [apply_wr graphs verts edges] in Hc.
    cores Hc Hg Hv He. intros t d0 Hin. rewrite He in Hin. apply filter_In in Hin as [Hin _]. unfold has_graph. rewrite Hg. apply HE with d0. exact Hin.
  - destruct (has_graph (kv m) g); [|discriminate]. destruct (del_edge_keys (kv m) g e) as [|t0 ts] eqn:Ek; inversion Ec; subst cs.
    change (EG (fold_left apply_wr (flat_map del_tuple (t0 :: ts)) (kv m))).
    pose proof (core_del_tuples (t0 :: ts) (kv m)) as Hc. cores Hc Hg Hv He. intros t d0 Hin. rewrite He in Hin.
    apply filter_In in Hin as [Hin _]. unfold has_graph. rewrite Hg. apply HE with d0. exact Hin.
Qed.

(* one call: same abstract state, same verdict, ghost agreement kept *)
Theorem step_refines m o h h' :
  Cons (kv m) -> GhE h (kv m) -> EG (kv m) -> gh_step h o = Some h' ->
  abs (kv (fst (step m o))) = fst (a_step (abs (kv m)) o) /\
  snd (step m o) = snd (a_step (abs (kv m)) o) /\
  GhE h' (kv (fst (step m o))).
Proof.
  intros HC HG HE Hs. unfold step. destruct o as [g|g|g v l d|g e a b l d|g els|g v|g e]; cbn [op_calls a_step gh_step] in *.
  - (* AddGraph *) inversion Hs; subst h'. destruct (valid_name g); cbn [fst snd kv touch]; [|auto].
    unfold apply_calls, apply_call; cbn [fold_left apply_wr]. split; [reflexivity|]. split; [reflexivity|exact HG].
  - (* DeleteGraph *) inversion Hs; subst h'. rewrite <- has_graph_abs. destruct (has_graph (kv m) g) eqn:Ehg; cbn [fst snd kv touch].
    2: { split; [reflexivity|]. split; [reflexivity|]. intros t d Hin. cbn [gh_e].
         rewrite find_filter_all; [apply HG with d; exact Hin|].
         intros [[yg ye] yk] Hy. apply pair_eqb_eq in Hy. cbn [fst] in *. injection Hy as Hy1 Hy2. subst yg.
         apply negb_true_iff. destruct (N.eqb_spec g (et_g t)) as [E|]; [|reflexivity].
         specialize (HE _ _ Hin). rewrite <- E in HE. congruence. }
    change (apply_calls (kv m) _) with (apply_calls (kv m) (delete_graph_calls g (ixfields (kv m)))).
    pose proof (core_delete_graph_calls (kv m) g (ixfields (kv m))) as Hcore.
    cores Hcore Hg Hv He. split; [|split; [reflexivity|]].
    + unfold abs. cbn [a_graphs a_verts a_edges]. rewrite Hg, Hv, He. f_equal. rewrite filter_map_comm. reflexivity.
    + intros t d Hin. rewrite He in Hin. apply filter_In in Hin as [Hin Hne]. cbn [fst] in Hne. cbn [gh_e].
      rewrite find_filter_all; [apply HG with d; exact Hin|].
      intros [[yg ye] yk] Hy. apply pair_eqb_eq in Hy. cbn [fst] in *. injection Hy as Hy1 Hy2. subst yg. exact Hne.
  - (* AddVertex *) rewrite <- has_graph_abs. destruct (has_graph (kv m) g && valid_vertex v l d) eqn:E; cbn [fst snd kv touch].
    + apply andb_true_iff in E as [_ Ev]. rewrite Ev in Hs. cbn [gh_elems] in Hs.
      destruct (gh_elem_ok g h (EV v l d)) eqn:Hok; [|discriminate]. inversion Hs; subst h'.
      unfold apply_calls, apply_call. cbn [fold_left].
      destruct (elem_abs (reg m) g (EV v l d) h (kv m) HG Hok) as [Ha HG']. cbn [elem_writes] in Ha, HG'. auto.
    + split; [reflexivity|]. split; [reflexivity|].
      destruct (valid_vertex v l d); [|inversion Hs; subst; exact HG].
      cbn [gh_elems] in Hs. destruct (gh_elem_ok g h (EV v l d)); [|discriminate]. inversion Hs; subst h'.
      intros t d0 Hin. cbn [gh_add gh_e]. apply HG with d0. exact Hin.
  - (* AddEdge *) rewrite <- has_graph_abs. destruct (has_graph (kv m) g && valid_edge e a b l d) eqn:E; cbn [fst snd kv touch].
    + apply andb_true_iff in E as [_ Ev]. rewrite Ev in Hs. cbn [gh_elems] in Hs.
      destruct (gh_elem_ok g h (EE e a b l d)) eqn:Hok; [|discriminate]. inversion Hs; subst h'.
      unfold apply_calls, apply_call. cbn [fold_left].
      destruct (elem_abs (reg m) g (EE e a b l d) h (kv m) HG Hok) as [Ha HG']. cbn [elem_writes] in Ha, HG'. auto.
    + split; [reflexivity|]. split; [reflexivity|].
      destruct (valid_edge e a b l d) eqn:Ev; [|inversion Hs; subst; exact HG].
      (* valid but no such graph: nothing is written, but the ghost remembers the attempt: it agrees with all records *)
      cbn [gh_elems] in Hs. destruct (gh_elem_ok g h (EE e a b l d)) eqn:Hok; [|discriminate]. inversion Hs; subst h'.
      intros t d0 Hin. cbn [gh_add gh_e find fst].
      destruct (pair_eqb (et_g t, et_e t) (g, e)) eqn:Ek; [|apply HG with d0; exact Hin].
      apply pair_eqb_eq in Ek. injection Ek as Eg Ee. specialize (HG _ _ Hin). rewrite Eg, Ee in HG.
      cbn [gh_elem_ok] in Hok. destruct (find (fun y => pair_eqb (g, e) (fst y)) (gh_e h)) as [[k v]|]; [|discriminate].
      cbn in HG. inversion HG as [Hv]. subst v. apply triple_eqb_eq in Hok. cbn. congruence.
  - (* BulkAdd *) rewrite <- has_graph_abs. destruct (has_graph (kv m) g) eqn:E; cbn [fst snd kv touch].
    + unfold apply_calls, apply_call. cbn [fold_left].
      destruct (elems_abs (reg m) g (filter valid_elem els) h h' (kv m) HG Hs) as [Ha HG']. auto.
    + split; [reflexivity|]. split; [reflexivity|].
      (* no such graph: nothing is written; the ghost of the attempted elements agrees with all records *)
      revert h h' HG Hs. induction (filter valid_elem els) as [|x xs IH]; intros h h' HG Hs; [cbn in Hs; inversion Hs; subst; exact HG|].
      cbn [gh_elems] in Hs. destruct (gh_elem_ok g h x) eqn:Hok; [|discriminate]. apply (IH (gh_add g h x)); [|exact Hs].
      destruct x as [v l d|e a b l d]; [intros t d0 Hin; cbn [gh_add gh_e]; apply HG with d0; exact Hin|].
      intros t d0 Hin. cbn [gh_add gh_e find fst].
      destruct (pair_eqb (et_g t, et_e t) (g, e)) eqn:Ek; [|apply HG with d0; exact Hin].
      apply pair_eqb_eq in Ek. injection Ek as Eg Ee. specialize (HG _ _ Hin). rewrite Eg, Ee in HG.
      cbn [gh_elem_ok] in Hok. destruct (find (fun y => pair_eqb (g, e) (fst y)) (gh_e h)) as [[k v]|]; [|discriminate].
      cbn in HG. inversion HG as [Hv]. subst v. apply triple_eqb_eq in Hok. cbn. congruence.
  - (* DelVertex *) inversion Hs; subst h'. rewrite <- has_graph_abs.
    change (a_verts (abs (kv m))) with (verts (kv m)).
    destruct (has_graph (kv m) g && existsb (fun x => pair_eqb (g, v) (fst x)) (verts (kv m))); cbn [fst snd kv touch]; [|auto].
    unfold apply_calls, apply_call. cbn [fold_left apply_wr].
    pose proof (core_del_tuples (del_vertex_keys (kv m) g v) (apply_wr (kv m) (WDelVert g v))) as Hc. cbn [apply_wr graphs verts edges] in Hc.
    cores Hc Hg Hv He. split; [|split; [reflexivity|]].
    + unfold abs. cbn [a_graphs a_verts a_edges]. rewrite Hg, Hv, He. f_equal. apply del_vertex_abs. exact HC.
    + eapply GhE_filter; [exact HG|exact He].
  - (* DelEdge *) inversion Hs; subst h'. rewrite <- has_graph_abs.
    change (a_edges (abs (kv m))) with (map abs_edge (edges (kv m))). rewrite <- del_edge_keys_nil.
    destruct (has_graph (kv m) g); cbn [andb fst snd]; [|auto].
    destruct (del_edge_keys (kv m) g e) as [|t0 ts] eqn:Ek; cbn [fst snd kv touch]; [auto|].
    unfold apply_calls, apply_call. cbn [fold_left]. rewrite <- Ek.
    pose proof (core_del_tuples (del_edge_keys (kv m) g e) (kv m)) as Hc. cores Hc Hg Hv He. split; [|split; [reflexivity|]].
    + unfold abs. cbn [a_graphs a_verts a_edges]. rewrite Hg, Hv, He. f_equal. apply del_edge_abs.
    + eapply GhE_filter; [exact HG|exact He].
Qed.

(* every history inside the guard: the store denotes exactly the last-write-wins graph of the history *)
Lemma run_refines ops : forall m a h,
  Cons (kv m) -> GhE h (kv m) -> EG (kv m) -> abs (kv m) = a -> guard_from h ops = true ->
  abs (kv (fold_left (fun m o => fst (step m o)) ops m)) = fold_left (fun a o => fst (a_step a o)) ops a.
Proof.
  induction ops as [|o r IH]; intros m a h HC HG HE Ha Hgd; [exact Ha|].
  cbn [guard_from] in Hgd. destruct (gh_step h o) as [h'|] eqn:Es; [|discriminate].
  destruct (step_refines m o h h' HC HG HE Es) as (H1 & _ & H3). cbn [fold_left].
  apply (IH _ _ h'); [apply step_Cons; exact HC|exact H3|apply step_EG; exact HE|rewrite H1, Ha; reflexivity|exact Hgd].
Qed.

Theorem refinement ops : guard ops = true -> abs (kv (run ops)) = a_run ops.
Proof.
  intros Hg. unfold run, a_run. apply (run_refines ops minit aempty gh_empty); [apply Cons_empty| | |reflexivity|exact Hg]; intros t d Hin; destruct Hin.
Qed.

(* and every call of such a history succeeds exactly when the specification says it does *)
Theorem verdicts ops o : guard (ops ++ [o]) = true ->
  snd (step (run ops) o) = snd (a_step (a_run ops) o).
Proof.
  intros Hg. unfold guard in Hg.
  assert (Hgen : forall ops m a h, Cons (kv m) -> GhE h (kv m) -> EG (kv m) -> abs (kv m) = a -> guard_from h (ops ++ [o]) = true ->
      snd (step (fold_left (fun m o => fst (step m o)) ops m) o) = snd (a_step (fold_left (fun a o => fst (a_step a o)) ops a) o)).
  { clear. induction ops as [|x r IH]; intros m a h HC HG HE Ha Hgd.
    - cbn [app guard_from fold_left] in *. destruct (gh_step h o) as [h'|] eqn:Es; [|discriminate].
      destruct (step_refines m o h h' HC HG HE Es) as (_ & H2 & _). rewrite H2, Ha. reflexivity.
    - cbn [app guard_from fold_left] in *. destruct (gh_step h x) as [h'|] eqn:Es; [|discriminate].
      destruct (step_refines m x h h' HC HG HE Es) as (H1 & _ & H3).
      apply (IH _ _ h'); [apply step_Cons; exact HC|exact H3|apply step_EG; exact HE|rewrite H1, Ha; reflexivity|exact Hgd]. }
  unfold run, a_run. apply (Hgen ops minit aempty gh_empty); [apply Cons_empty| | |reflexivity|exact Hg]; intros t d Hin; destruct Hin.
Qed.
