(* Jobs (property C11): server/job_manager.go over jobstorage/storage.go.
   A job stores the travelers a traversal produced, with the result type and mark types of its pipeline;
   resuming compiles the extra statements from that type (CompileOptions.PipelineExtension) and feeds the
   stored travelers in; searching compares per-statement checksums. *)
From Coq Require Import List Arith Bool String.
Import ListNotations.
From Grip Require Import Model.Json Model.Has Model.Traversal.

(* ---------- resume ---------- *)
(* what Resume computes: the extension typed from the stored type, run on the stored travelers *)
Definition resume (g : graph) (stored_ty : tstate) (stored : list trav) (ext : list stmt) : option (tstate * list trav) :=
  run_from g stored_ty ext stored.

(* ---------- search ---------- *)
Section Match.
  Variable H : Type.                       (* per-statement checksum *)
  Variable heq : H -> H -> bool.
  (* jobstorage.JobMatch *)
  Fixpoint all_match (query job : list H) : bool :=
    match job, query with
    | [], _ => true
    | j :: jr, q :: qr => heq q j && all_match qr jr
    | _ :: _, [] => false
    end.
  Definition job_match (query job : list H) : bool :=
    (List.length job <=? List.length query) && (1 <? List.length job) && all_match query job.
End Match.
Arguments job_match {H}. Arguments all_match {H}.

Fixpoint is_prefix {X} (eqb : X -> X -> bool) (p l : list X) : bool :=
  match p, l with
  | [], _ => true
  | a :: p', b :: l' => eqb a b && is_prefix eqb p' l'
  | _ :: _, [] => false
  end.

(* ---------- the job table over a history ---------- *)
Inductive jact := ASubmit (id : nat) (prog : list stmt) | ADelete (id : nat) | ARestart.
Definition jtable := list (nat * list stmt).
Definition jstep (t : jtable) (a : jact) : jtable :=
  match a with
  | ASubmit id p => t ++ [(id, p)]
  | ADelete id => filter (fun j => negb (fst j =? id)) t
  | ARestart => t                       (* completed jobs are reloaded from their status files *)
  end.
Definition jrun (l : list jact) : jtable := fold_left jstep l [].

(* ---------- the spool: jobstorage/serializer.go MarshalStream / UnmarshalStream ---------- *)
(* items are handed to n workers in turn (a counter that wraps); the workers' outputs are merged by reading one
   item from every still-open worker in turn until a whole turn finds nothing *)
Section RoundRobin.
  Context {X : Type}.
  Definition app_at (c : nat) (x : X) (ws : list (list X)) : list (list X) :=
    map (fun kw => if Nat.eqb (fst kw) c then snd kw ++ [x] else snd kw) (combine (seq 0 (List.length ws)) ws).
  (* reader: item to worker c, then c := c+1, wrapping at n *)
  Fixpoint deal_from (n c : nat) (l : list X) (ws : list (list X)) : list (list X) :=
    match l with
    | [] => ws
    | x :: r => deal_from n (if Nat.eqb (S c) n then 0 else S c) r (app_at c x ws)
    end.
  Definition deal (n : nat) (l : list X) : list (list X) := deal_from n 0 l (repeat [] n).

  Definition head_list (w : list X) : list X := match w with [] => [] | x :: _ => [x] end.
  (* merger: one turn takes the next item of every worker that still has one; stop after an empty turn *)
  Fixpoint merge (fuel : nat) (ws : list (list X)) : list X :=
    match fuel with
    | 0 => []
    | S f => match flat_map head_list ws with
             | [] => []
             | hs => hs ++ merge f (map (@tl X) ws)
             end
    end.

End RoundRobin.
