(* Types of the tables the translator extracts from accounts/*.go, gripql_grpc.pb.go and server/server.go. *)
From Coq Require Import List String Bool.
Inductive mkind := Unary | ServerStream | ClientStream | BidiStream.
Inductive op := OpQuery | OpWrite | OpRead | OpExec | OpAdmin | OpQueryRepeat.
Inductive gsrc := GRequest | GStar | GUnknown.           (* which graph is handed to Enforce *)
Inductive osrc := OFromMap | OLit (o : op) | OUnknown.    (* which operation class is handed to Enforce *)
Inductive sdefault := DRunsHandler | DRefuses | DUnknown. (* what an unlisted stream method gets *)
Record stream_case := { sc_enforced : bool; sc_graph : gsrc; sc_op : osrc }.
