package main

import (
	"context"
	"encoding/json"
	"fmt"
	"math"
	"math/rand"
	"os"
	"sort"
	"strings"
	"time"

	"github.com/bmeg/grip/config"
	"github.com/bmeg/grip/gdbi"
	"github.com/bmeg/grip/gripql"
	"github.com/bmeg/grip/jobstorage"
	"github.com/bmeg/grip/kvgraph"
	"github.com/bmeg/grip/kvi"
	"github.com/bmeg/grip/server"
	"google.golang.org/protobuf/types/known/structpb"

	"gripverif/internal/coq"
)

func init() {
	props["C11"] = runC11
	workers["jobs"] = func(args []string) { workerLoop(jobsWorker) }
}

type c11Op struct {
	Op   string  `json:"op"` // submit resume search list delete restart
	Prog []tStmt `json:"prog,omitempty"`
	Job  int     `json:"job,omitempty"` // index of the submit it refers to
	N    int     `json:"n,omitempty"`   // spool: number of workers
	M    int     `json:"m,omitempty"`   // spool: number of items
	P    int     `json:"p,omitempty"`   // spool: 1 + index of an item that cannot be serialized (NaN in its data); 0 = none
}
type c11Input struct {
	Graph tGraph  `json:"graph"`
	Ops   []c11Op `json:"ops"`
}
type c11OpObs struct {
	Accepted bool     `json:"accepted"`
	Err      string   `json:"err,omitempty"`
	State    string   `json:"state,omitempty"`
	Count    int64    `json:"count"`
	View     tOutcome `json:"view"`
	Direct   tOutcome `json:"direct"`
	Found    []int    `json:"found"`
}
type c11Obs struct {
	Ops []c11OpObs `json:"ops"`
	Err string     `json:"err,omitempty"`
}

type statusStream struct {
	fakeStream
	st []*gripql.JobStatus
}

func (s *statusStream) Send(x *gripql.JobStatus) error { s.st = append(s.st, x); return nil }

func rowsOf(t *travStream) tOutcome {
	o := tOutcome{Rows: []interface{}{}, Closed: true}
	for _, r := range t.rows {
		o.Rows = append(o.Rows, canonRow(r))
	}
	return o
}

func jobsWorker(req json.RawMessage) interface{} {
	var in c11Input
	if err := json.Unmarshal(req, &in); err != nil {
		return c11Obs{Err: err.Error()}
	}
	dir, _ := os.MkdirTemp(os.Getenv("C11ROOT"), "c11")
	defer os.RemoveAll(dir)
	kv, err := kvi.NewKVInterface("badger", dir+"/db", nil)
	if err != nil {
		return c11Obs{Err: err.Error()}
	}
	db := kvgraph.NewKVGraph(kv)
	defer db.Close()
	conf := config.DefaultConfig()
	conf.Server.WorkDir = dir + "/work"
	conf.Default = "d"
	newServer := func() (*server.GripServer, error) {
		return server.NewVerifServer(conf, dir, map[string]gdbi.GraphDB{"d": db}, dir+"/jobs")
	}
	srv, err := newServer()
	if err != nil {
		return c11Obs{Err: err.Error()}
	}
	ctx := context.Background()
	srv.AddGraph(ctx, &gripql.GraphID{Graph: "g"})
	srv.AddGraph(ctx, &gripql.GraphID{Graph: "other"})
	for _, v := range in.Graph.V {
		s, _ := structpb.NewStruct(normArg(v.Data).(map[string]interface{}))
		if _, err := srv.AddVertex(ctx, &gripql.GraphElement{Graph: "g", Vertex: &gripql.Vertex{Gid: v.ID, Label: v.Label, Data: s}}); err != nil {
			return c11Obs{Err: err.Error()}
		}
	}
	for _, e := range in.Graph.E {
		s, _ := structpb.NewStruct(normArg(e.Data).(map[string]interface{}))
		if _, err := srv.AddEdge(ctx, &gripql.GraphElement{Graph: "g", Edge: &gripql.Edge{Gid: e.ID, Label: e.Label, From: e.From, To: e.To, Data: s}}); err != nil {
			return c11Obs{Err: err.Error()}
		}
	}
	// jobs on graphs whose names differ from "g" only in case or punctuation: they must never be found by searches on g either
	for _, gn := range []string{"G", "g_", "g-"} {
		if _, err := srv.AddGraph(ctx, &gripql.GraphID{Graph: gn}); err == nil {
			if j, err := srv.Submit(ctx, &gripql.GraphQuery{Graph: gn, Query: gripql.NewQuery().V().Out().Statements}); err == nil {
				waitJob(srv, j)
			}
		}
	}
	// a job on another graph with a two-step query: must never be found by searches on g
	if j, err := srv.Submit(ctx, &gripql.GraphQuery{Graph: "other", Query: gripql.NewQuery().V().Out().Statements}); err == nil {
		waitJob(srv, j)
	}
	ob := c11Obs{Ops: make([]c11OpObs, len(in.Ops))}
	jobIDs := map[int]string{} // submit index -> job id
	idxOf := func(id string) int {
		for k, v := range jobIDs {
			if v == id {
				return k
			}
		}
		return -1
	}
	for i, op := range in.Ops {
		o := &ob.Ops[i]
		o.Found = []int{}
		o.View.Rows, o.Direct.Rows = []interface{}{}, []interface{}{}
		switch op.Op {
		case "submit":
			q := &gripql.GraphQuery{Graph: "g", Query: progProto(op.Prog)}
			j, err := srv.Submit(ctx, q)
			if err != nil {
				o.Err = err.Error()
				o.View.Rejected, o.Direct.Rejected = true, true
			} else {
				o.Accepted = true
				jobIDs[i] = j.Id
				st := waitJob(srv, j)
				if st != nil {
					o.State, o.Count = st.State.String(), int64(st.Count)
				}
				vs := &travStream{fakeStream: fakeStream{ctx}}
				srv.ViewJob(j, vs)
				o.View = rowsOf(vs)
			}
			ds := &travStream{fakeStream: fakeStream{ctx}}
			if err := srv.Traversal(q, ds); err != nil {
				o.Direct = tOutcome{Rejected: true, Err: err.Error(), Rows: []interface{}{}}
			} else {
				o.Direct = rowsOf(ds)
			}
		case "resume":
			id, ok := jobIDs[op.Job]
			if !ok {
				o.Err = "no such job"
				o.View.Rejected = true
				break
			}
			vs := &travStream{fakeStream: fakeStream{ctx}}
			err := srv.ResumeJob(&gripql.ExtendQuery{SrcId: id, Graph: "g", Query: progProto(op.Prog)}, vs)
			if err != nil {
				o.Err = err.Error()
				o.View = tOutcome{Rejected: true, Err: err.Error(), Rows: []interface{}{}}
			} else {
				o.Accepted = true
				o.View = rowsOf(vs)
			}
		case "view":
			id, ok := jobIDs[op.Job]
			if !ok {
				o.View.Rejected = true
				break
			}
			vs := &travStream{fakeStream: fakeStream{ctx}}
			srv.ViewJob(&gripql.QueryJob{Id: id, Graph: "g"}, vs)
			o.View = rowsOf(vs)
			if st, err := srv.GetJob(ctx, &gripql.QueryJob{Id: id, Graph: "g"}); err == nil {
				o.Accepted = true
				o.State, o.Count = st.State.String(), int64(st.Count)
			} else {
				o.Err = err.Error()
			}
		case "search":
			ss := &statusStream{fakeStream: fakeStream{ctx}}
			if err := srv.SearchJobs(&gripql.GraphQuery{Graph: "g", Query: progProto(op.Prog)}, ss); err != nil {
				o.Err = err.Error()
			} else {
				o.Accepted = true
			}
			for _, s := range ss.st {
				o.Found = append(o.Found, idxOf(s.Id))
			}
			sort.Ints(o.Found)
		case "list":
			ls := &jobListStream{fakeStream: fakeStream{ctx}}
			if err := srv.ListJobs(&gripql.GraphID{Graph: "g"}, ls); err != nil {
				o.Err = err.Error()
			} else {
				o.Accepted = true
			}
			for _, j := range ls.jobs {
				o.Found = append(o.Found, idxOf(j.Id))
			}
			sort.Ints(o.Found)
		case "delete":
			id, ok := jobIDs[op.Job]
			if !ok {
				break
			}
			if _, err := srv.DeleteJob(ctx, &gripql.QueryJob{Id: id, Graph: "g"}); err != nil {
				o.Err = err.Error()
			} else {
				o.Accepted = true
			}
		case "spool":
			// the serializer pair the job spool is written and read through: ids in, ids out
			in := make(chan gdbi.Traveler, 4)
			go func() {
				for i := 0; i < op.M; i++ {
					el := &gdbi.DataElement{ID: fmt.Sprint(i), Label: "P", Loaded: true}
					if op.P == i+1 {
						el.Data = map[string]interface{}{"x": math.NaN()} // json.Marshal refuses it: the slot must stay in place
					}
					in <- &gdbi.BaseTraveler{Current: el}
				}
				close(in)
			}()
			o.Found = []int{}
			for t := range jobstorage.UnmarshalStream(jobstorage.MarshalStream(in, op.N), op.N) {
				id := -1
				fmt.Sscan(t.GetCurrentID(), &id)
				o.Found = append(o.Found, id)
			}
			o.Accepted = true
		case "restart":
			s2, err := newServer()
			if err != nil {
				o.Err = err.Error()
			} else {
				srv = s2
				o.Accepted = true
			}
		}
	}
	return ob
}

func waitJob(srv *server.GripServer, j *gripql.QueryJob) *gripql.JobStatus {
	var st *gripql.JobStatus
	for k := 0; k < 18000; k++ { // up to 90 s: a job with distinct() opens a temporary store, which is slow on a loaded machine
		s, err := srv.GetJob(context.Background(), j)
		if err == nil {
			st = s
			if s.State == gripql.JobState_COMPLETE || s.State == gripql.JobState_ERROR {
				return s
			}
		}
		time.Sleep(5 * time.Millisecond)
	}
	return st
}

// ---------- generation ----------
func c11History(rng *rand.Rand, n int) []c11Op {
	ops := []c11Op{}
	submits := []int{}
	progs := map[int][]tStmt{}
	for len(ops) < n {
		switch r := rng.Intn(12); {
		case r < 4 || len(submits) == 0:
			p := randProgram(rng, 5, progOpts{markType: genType})
			progs[len(ops)] = p
			submits = append(submits, len(ops))
			ops = append(ops, c11Op{Op: "submit", Prog: p})
		case r < 6:
			j := submits[rng.Intn(len(submits))]
			// an extension: continue the program of the job with a few more steps (typed from where it stopped)
			full := randProgram(rng, 4, progOpts{markType: genType})
			ext := extensionFor(rng, progs[j], full)
			ops = append(ops, c11Op{Op: "resume", Job: j, Prog: ext})
		case r < 8:
			j := submits[rng.Intn(len(submits))]
			p := append([]tStmt{}, progs[j]...)
			switch rng.Intn(4) {
			case 0: // the same query
			case 1: // a longer query
				p = append(p, extensionFor(rng, p, nil)...)
			case 2: // a proper prefix
				if len(p) > 1 {
					p = p[:1+rng.Intn(len(p)-1)]
				}
			default: // something else
				p = randProgram(rng, 4, progOpts{markType: genType})
			}
			ops = append(ops, c11Op{Op: "search", Prog: p})
		case r < 9:
			ops = append(ops, c11Op{Op: "list"})
		case r < 10:
			ops = append(ops, c11Op{Op: "delete", Job: submits[rng.Intn(len(submits))]})
		case r < 11:
			ops = append(ops, c11Op{Op: "restart"})
		default:
			ops = append(ops, c11Op{Op: "view", Job: submits[rng.Intn(len(submits))]})
		}
	}
	return ops
}

// extensionFor: a few statements that are well typed after prog (mostly)
func extensionFor(rng *rand.Rand, prog []tStmt, _ []tStmt) []tStmt {
	ty := genType(prog)
	ext := []tStmt{}
	n := 1 + rng.Intn(3)
	for i := 0; i < n; i++ {
		switch ty {
		case "vertex":
			switch rng.Intn(6) {
			case 0:
				ext = append(ext, tStmt{Op: "out"})
			case 1:
				ext = append(ext, tStmt{Op: "both", Strs: []string{"knows"}})
			case 2:
				ext = append(ext, tStmt{Op: "outE"})
				ty = "edge"
			case 3:
				ext = append(ext, tStmt{Op: "hasLabel", Strs: []string{"P", "Q"}})
			case 4:
				ext = append(ext, tStmt{Op: "count"})
				ty = "count"
			default:
				ext = append(ext, tStmt{Op: "has", Has: &hExpr{Kind: "cond", Key: "w", Op: "gte", Arg: 2.0}})
			}
		case "edge":
			switch rng.Intn(4) {
			case 0:
				ext = append(ext, tStmt{Op: "out"})
				ty = "vertex"
			case 1:
				ext = append(ext, tStmt{Op: "in"})
				ty = "vertex"
			case 2:
				ext = append(ext, tStmt{Op: "hasLabel", Strs: []string{"knows"}})
			default:
				ext = append(ext, tStmt{Op: "count"})
				ty = "count"
			}
		default:
			// count / render / path / selection results: anything more is ill typed, try one anyway sometimes
			if rng.Intn(3) == 0 {
				ext = append(ext, tStmt{Op: "out"})
			} else {
				ext = append(ext, tStmt{Op: "limit", N: 3})
			}
			return ext
		}
	}
	return ext
}

func runC11(ctx *Ctx) error {
	ctx.EvalMod = "Eval_C11"
	ctx.CaseTy = "c11_case"
	ctx.Shard = 12
	ctx.Rule = "histories against the Job service of an in-process server (verif hook; jobs spooled under a real job directory, badger store): random graphs (0..5 vertices, self loops, parallel and dangling edges, nested data) x histories of 8..20 operations: submit of random traversals of all result types (vertices, edges, counts, selections, renders, paths; the direct Traversal of the same query is run alongside), view, resume with typed extensions (and some ill-typed), search with the same / a longer / a shorter / an unrelated query (and with a step whose list argument is in another order), list, delete, restart (a new server object over the same job directory and store); plus sized jobs around the 4-worker pool and 10/40-slot buffers; a two-step job on another graph is always present; plus the serializer pair of the spool on its own (jobstorage.MarshalStream |> UnmarshalStream) for 1..8 workers x 0..300 items, ids out against ids in, in order; observed: acceptance, state, count, rows of view/resume/direct, ids found; non-trivial = a history with a resume or a restart after a submit; distinct by input"
	var inputs []c11Input
	if ctx.Replay != nil {
		var in c11Input
		if err := json.Unmarshal(ctx.Replay, &in); err != nil {
			return err
		}
		inputs = []c11Input{in}
	} else {
		n := ctx.Pick(60, 600)
		for i := 0; i < n; i++ {
			inputs = append(inputs, c11Input{Graph: randGraph(ctx.Rng), Ops: c11History(ctx.Rng, 8+ctx.Rng.Intn(13))})
		}
		// stored jobs whose steps carry lists, searched with the same lists in another order (a step is what it says, in order:
		// hasLabel(P,Q) / hasLabel(Q,P), render([name,w]) / render([w,name]), distinct, fields, select) and in the same order
		{
			fg := fixedGraph()
			pairs := [][2]tStmt{
				{{Op: "hasLabel", Strs: []string{"P", "Q"}}, {Op: "hasLabel", Strs: []string{"Q", "P"}}},
				{{Op: "out", Strs: []string{"knows", "likes"}}, {Op: "out", Strs: []string{"likes", "knows"}}},
				{{Op: "distinct", Strs: []string{"name", "w"}}, {Op: "distinct", Strs: []string{"w", "name"}}},
				{{Op: "fields", Strs: []string{"name", "w"}}, {Op: "fields", Strs: []string{"w", "name"}}},
				{{Op: "render", Tpl: []interface{}{"name", "w"}}, {Op: "render", Tpl: []interface{}{"w", "name"}}},
				{{Op: "hasId", Strs: []string{"a", "b"}}, {Op: "hasId", Strs: []string{"b", "a"}}},
			}
			ops := []c11Op{}
			for _, pr := range pairs {
				ops = append(ops, c11Op{Op: "submit", Prog: []tStmt{{Op: "V"}, pr[0]}})
			}
			for _, pr := range pairs {
				ops = append(ops, c11Op{Op: "search", Prog: []tStmt{{Op: "V"}, pr[1]}}, c11Op{Op: "search", Prog: []tStmt{{Op: "V"}, pr[0]}})
			}
			inputs = append(inputs, c11Input{Graph: fg, Ops: ops})
		}
		// sized: result counts around the worker pool (4) and channel sizes (10, 40)
		for _, m := range []int{0, 1, 3, 4, 5, 9, 10, 11, 39, 40, 41, 45, 83, 200} {
			g := tGraph{V: []tVertex{}, E: []tEdge{}}
			for k := 0; k < m; k++ {
				g.V = append(g.V, tVertex{ID: fmt.Sprintf("v%03d", k), Label: "P", Data: map[string]interface{}{"w": float64(k)}})
			}
			p := []tStmt{{Op: "V"}, {Op: "hasLabel", Strs: []string{"P"}}}
			inputs = append(inputs, c11Input{Graph: g, Ops: []c11Op{{Op: "submit", Prog: p}, {Op: "restart"}, {Op: "view", Job: 0},
				{Op: "resume", Job: 0, Prog: []tStmt{{Op: "has", Has: &hExpr{Kind: "cond", Key: "w", Op: "gte", Arg: 2.0}}}}, {Op: "search", Prog: append(append([]tStmt{}, p...), tStmt{Op: "count"})},
				{Op: "resume", Job: 0, Prog: []tStmt{{Op: "count"}}}, {Op: "search", Prog: []tStmt{{Op: "V"}, {Op: "out"}, {Op: "count"}}}, {Op: "delete", Job: 0}, {Op: "list"}, {Op: "restart"}, {Op: "list"},
				{Op: "search", Prog: []tStmt{{Op: "V"}, {Op: "out"}}}, {Op: "view", Job: 0}}})
		}
	}
	if ctx.Replay == nil {
		// a row longer than any line buffer of the spool reader (70 kB in one property), in the middle of the rows
		{
			g := tGraph{V: []tVertex{}, E: []tEdge{}}
			for k := 0; k < 6; k++ {
				d := map[string]interface{}{"w": float64(k)}
				if k == 2 {
					d["blob"] = strings.Repeat("x", 70000)
				}
				g.V = append(g.V, tVertex{ID: fmt.Sprintf("v%d", k), Label: "P", Data: d})
			}
			p := []tStmt{{Op: "V"}, {Op: "hasLabel", Strs: []string{"P"}}}
			inputs = append(inputs, c11Input{Graph: g, Ops: []c11Op{{Op: "submit", Prog: p}, {Op: "view", Job: 0}, {Op: "restart"}, {Op: "view", Job: 0},
				{Op: "resume", Job: 0, Prog: []tStmt{{Op: "count"}}}, {Op: "resume", Job: 0, Prog: []tStmt{{Op: "has", Has: &hExpr{Kind: "cond", Key: "w", Op: "gte", Arg: 3.0}}}}}})
		}
		// the spool's serializer pair on its own: every worker count 1..6 x lengths around multiples of it
		sp := []c11Op{}
		for n := 1; n <= 6; n++ {
			for _, m := range []int{0, 1, n - 1, n, n + 1, 2*n - 1, 2 * n, 2*n + 1, 7 * n, 7*n + 3, 101} {
				if m >= 0 {
					sp = append(sp, c11Op{Op: "spool", N: n, M: m})
				}
			}
		}
		for i := 0; i < ctx.Pick(10, 100); i++ {
			sp = append(sp, c11Op{Op: "spool", N: 1 + ctx.Rng.Intn(8), M: ctx.Rng.Intn(300)})
		}
		// one item that cannot be serialized: it arrives empty, in its place, and nothing behind it moves
		for _, nm := range [][3]int{{4, 24, 6}, {4, 24, 1}, {3, 10, 10}, {1, 5, 3}, {5, 23, 12}} {
			sp = append(sp, c11Op{Op: "spool", N: nm[0], M: nm[1], P: nm[2]})
		}
		inputs = append(inputs, c11Input{Graph: tGraph{V: []tVertex{}, E: []tEdge{}}, Ops: sp})
		// marks and selections across a restart: the stored mark types are what a resumed select() and the
		// conversion of stored selection rows depend on
		fg := fixedGraph()
		sel := []tStmt{{Op: "V"}, {Op: "as", Str: "a"}, {Op: "out"}, {Op: "as", Str: "b"}, {Op: "select", Strs: []string{"a", "b"}}}
		marked := []tStmt{{Op: "V"}, {Op: "as", Str: "a"}, {Op: "outE"}, {Op: "as", Str: "e"}, {Op: "out"}}
		inputs = append(inputs, c11Input{Graph: fg, Ops: []c11Op{
			{Op: "submit", Prog: sel}, {Op: "submit", Prog: marked}, {Op: "view", Job: 0},
			{Op: "resume", Job: 1, Prog: []tStmt{{Op: "select", Strs: []string{"a"}}}},
			{Op: "restart"},
			{Op: "view", Job: 0}, {Op: "resume", Job: 0, Prog: []tStmt{{Op: "limit", N: 100}}},
			{Op: "resume", Job: 1, Prog: []tStmt{{Op: "select", Strs: []string{"a"}}}},
			{Op: "resume", Job: 1, Prog: []tStmt{{Op: "select", Strs: []string{"a", "e"}}}},
			{Op: "resume", Job: 1, Prog: []tStmt{{Op: "has", Has: &hExpr{Kind: "cond", Key: "$a.name", Op: "eq", Arg: "x"}}}},
			{Op: "list"}}})
	}
	reqs := make([]json.RawMessage, len(inputs))
	for i, in := range inputs {
		reqs[i], _ = json.Marshal(in)
	}
	root, _ := os.MkdirTemp("", "c11root")
	os.Setenv("C11ROOT", root)
	defer os.RemoveAll(root)
	res := runIsolated("jobs", reqs, 8, 120*time.Second)
	rerunFailed("jobs", reqs, res, 120*time.Second)
	for i, in := range inputs {
		var ob c11Obs
		r := res[i]
		switch {
		case r.Crashed:
			ob = c11Obs{Err: "crash: " + tailStr(r.Stderr, 1500)}
		case r.Timeout:
			ob = c11Obs{Err: "worker timeout"}
		default:
			json.Unmarshal(r.Out, &ob)
		}
		ops := make([]string, len(in.Ops))
		nontriv := false
		seenSubmit := false
		for k, op := range in.Ops {
			var o c11OpObs
			if k < len(ob.Ops) {
				o = ob.Ops[k]
			} else {
				o = c11OpObs{View: tOutcome{Rejected: true}, Direct: tOutcome{Rejected: true}}
			}
			found := make([]string, len(o.Found))
			for x, f := range o.Found {
				if f < 0 {
					found[x] = "99999"
				} else {
					found[x] = fmt.Sprint(f)
				}
			}
			switch op.Op {
			case "submit":
				seenSubmit = true
				ops[k] = fmt.Sprintf("(OSubmit %s %s %d%%N %s %s)", progCoq(op.Prog), coq.Bool(o.State == "COMPLETE"), o.Count, outcomeCoq(o.View), outcomeCoq(o.Direct))
			case "resume":
				nontriv = nontriv || seenSubmit
				ops[k] = fmt.Sprintf("(OResume %d %s %s)", op.Job, progCoq(op.Prog), outcomeCoq(o.View))
			case "view":
				ops[k] = fmt.Sprintf("(OView %d %s %d%%N %s)", op.Job, coq.Bool(o.Accepted), o.Count, outcomeCoq(o.View))
			case "search":
				ops[k] = fmt.Sprintf("(OSearch %s %s)", progCoq(op.Prog), coq.List(found))
			case "list":
				ops[k] = fmt.Sprintf("(OList %s)", coq.List(found))
			case "delete":
				ops[k] = fmt.Sprintf("(ODelete %d)", op.Job)
			case "restart":
				nontriv = nontriv || seenSubmit
				ops[k] = "ORestart"
			case "spool":
				sent := make([]string, op.M)
				for x := range sent {
					sent[x] = fmt.Sprint(x)
					if op.P == x+1 {
						sent[x] = "99999" // arrives as an empty traveler
					}
				}
				ops[k] = fmt.Sprintf("(OSpool %d %s %s)", op.N, coq.List(sent), coq.List(found))
			}
		}
		cc := coq.Record("jgraph", in.Graph.coq(), "jhistory", coq.List(ops), "jfailed", coq.Bool(ob.Err != ""))
		key, _ := json.Marshal(in)
		ctx.Add(Case{Input: in, Observed: ob, Coq: cc, Nontrivial: nontriv, Key: string(key), Tags: []string{fmt.Sprintf("ops=%d", len(in.Ops))}})
	}
	return nil
}
